package server

// Family "collide" (C07 collision clause): one neighbour that gobgp dials (active) and that also
// dials gobgp, so that two transport connections exist at once.  The harness plays an
// RFC-conformant neighbour: it waits until gobgp's OPEN has arrived on the connections that exist,
// then sends its own OPEN according to the drawn plan
//   both     on both connections at the same virtual instant, then closes the connection that
//            RFC 4271 6.8 / RFC 6286 2.3 tell it to close (the one initiated by the speaker with
//            the lower BGP Identifier; equal identifiers: the lower AS number)
//   in/out   on one connection only; the other stays open and silent (a stalled connection)
// and answers KEEPALIVE with KEEPALIVE on whichever connection gobgp continues.
// Identifiers and AS numbers are drawn so that either side can be the dominant one, including
// equal identifiers with 2- and 4-octet AS numbers.
//
// Oracle (bounded liveness, no faults after the OPENs): within the settle time the session is
// Established, on the connection the RFC rule keeps (plan both) or on the only connection that
// saw an OPEN (plans in/out), and gobgp has not closed that connection; the API reports
// Established.  C20 monitors (hang, crash, leak after shutdown) apply as everywhere.

import (
	"fmt"
	"net"
	"net/netip"
	"sync"
	"testing/synctest"
	"time"

	"github.com/osrg/gobgp/v4/api"
)

func init() {
	families["collide"] = &familyImpl{setup: collideSetup, op: collideOp, check: collideCheck}
	extraGenerators["collide"] = genCollide
}

type collideState struct {
	w        *simWorld
	mu       sync.Mutex
	in, out  *rawSess
	outCh    chan struct{}
	plan     string
	opened   map[string]bool // connections on which the harness sent its OPEN
	survivor string
	holds    map[string]int
	done     bool
	note     string
}

func (w *simWorld) collide() *collideState { return w.fam.(*collideState) }

func collideSetup(w *simWorld) error {
	z := &collideState{w: w, outCh: make(chan struct{}, 16), opened: map[string]bool{}}
	w.fam = z
	cfg := w.peers[0].cfg
	w.net.listen(net.JoinHostPort(cfg.Addr, "179"), &simListener{mode: "refuse", handle: func(c *simConn) {
		s := w.newRawSess(c, "out")
		z.mu.Lock()
		first := z.out == nil
		if first {
			z.out = s
		}
		z.mu.Unlock()
		if !first {
			// a later dial attempt of gobgp: not part of the scenario
			c.Close()
			return
		}
		w.logf("gobgp dialled the neighbour")
		w.probe("collide_outbound_connected")
		select {
		case z.outCh <- struct{}{}:
		default:
		}
	}})
	return nil
}

func genCollide(seed uint64, tier, mode string) *Script {
	g := newGen(seed)
	sc := &Script{Family: "collide", Mode: mode, Seed: seed}
	sc.SchedSeed = g.u64() | 1
	sc.YieldN = pick(g, yieldChoices)
	sc.SelShuffle = g.p(70)
	sc.Global = GlobalCfg{AS: 65000, RouterID: "10.0.0.9"}
	c := PeerCfg{Idx: 0, Addr: peerAddr(0), Kind: "ebgp", Families: []string{"ipv4-unicast"}, Active: true, HoldTime: 90}
	c.AS = uint32(pick(g, []int{65001, 64999, 23457, 4200000001, 70000}))
	c.RouterID = pick(g, []string{"10.0.0.9", "10.0.0.9", "10.0.0.10", "10.0.0.8", "9.255.255.255", "10.0.1.0", "192.0.2.1", "1.1.1.1"})
	if g.p(15) {
		sc.Global.AS = uint32(pick(g, []int{4200000000, 23456 + 1, 100}))
	}
	if g.p(20) {
		c.Kind, c.AS = "ibgp", sc.Global.AS
		if c.RouterID == sc.Global.RouterID {
			c.RouterID = "10.0.0.10"
		}
	}
	if c.AS == sc.Global.AS {
		c.Kind = "ibgp"
		if c.RouterID == sc.Global.RouterID {
			c.RouterID = "10.0.0.8"
		}
	}
	sc.Peers = []PeerCfg{c}
	plan := pick(g, []string{"both", "both", "both", "in", "out"})
	ops := []Op{
		// the listener starts accepting gobgp's dials at a drawn instant; the inbound connection is
		// made either at its own instant or the moment gobgp's dial arrives
		{Kind: "clisten", Actor: 1, Delay: pick(g, []int{0, 0, 1000, 4000, 6000})},
		{Kind: "cin", Actor: 0, Delay: pick(g, []int{0, 100, 3000, 5000, 7000}), Arg: pick(g, []string{"ondial", "ondial", "timed"}), N: pick(g, []int{0, 0, 0, 1, 50})},
		{Kind: "cplan", Actor: 2, Arg: plan, N: pick(g, []int{0, 1, 10, 501}), Count: pick(g, []int{0, 1, 2, 5, 300, 301})},
	}
	sc.Phases = []Phase{{Ops: ops, Settle: 30, Check: true}}
	sc.Final = pick(g, []string{"stop", "stopbgp", "deleteall"})
	return sc
}

func collideOp(w *simWorld, actor int, op *Op) {
	z := w.collide()
	cfg := w.peers[0].cfg
	switch op.Kind {
	case "clisten":
		w.net.setListenMode(net.JoinHostPort(cfg.Addr, "179"), "accept", 0)
	case "cin":
		if op.Arg == "ondial" {
			select {
			case <-z.outCh:
			case <-time.After(20 * time.Second):
				w.probe("collide_no_dial_seen")
			}
			time.Sleep(time.Duration(op.N) * time.Millisecond)
		}
		a, b := w.net.pair(&net.TCPAddr{IP: w.net.serverIP, Port: 179}, &net.TCPAddr{IP: net.ParseIP(cfg.Addr).To4(), Port: w.net.port()})
		s := w.newRawSess(b, "in")
		z.mu.Lock()
		z.in = s
		z.mu.Unlock()
		w.acceptCh <- net.NewSimTCPConn(a)
		w.probe("collide_inbound_connected")
	case "cplan":
		z.run(op)
	default:
		w.harnessError("collide: unknown op %s", op.Kind)
	}
}

func hasOpen(s *rawSess) (*wOpenMsg, bool) {
	if s == nil {
		return nil, false
	}
	rx, closed, _ := s.snapshot()
	for _, m := range rx {
		if m.Type == wOpen {
			return m.Open, closed
		}
	}
	return nil, closed
}

// run is the neighbour's side of the scenario.
func (z *collideState) run(op *Op) {
	w := z.w
	cfg := w.peers[0].cfg
	z.mu.Lock()
	z.plan = op.Arg
	z.mu.Unlock()
	// wait (at most 15 s) until both connections exist and carry gobgp's OPEN
	var in, out *rawSess
	deadline := time.Now().Add(15 * time.Second)
	for {
		z.mu.Lock()
		in, out = z.in, z.out
		z.mu.Unlock()
		oi, ci := hasOpen(in)
		oo, co := hasOpen(out)
		if oi != nil && oo != nil && !ci && !co {
			break
		}
		if time.Now().After(deadline) {
			z.mu.Lock()
			z.note = fmt.Sprintf("scenario not reached: inbound open=%v closed=%v, outbound open=%v closed=%v", oi != nil, ci, oo != nil, co)
			z.done = true
			z.mu.Unlock()
			w.probe("collide_scenario_not_reached")
			return
		}
		time.Sleep(10 * time.Millisecond)
	}
	time.Sleep(time.Duration(op.N) * time.Millisecond)
	// the two OPENs of one neighbour need not be identical: each connection negotiates for itself
	// (C08: the session runs with the parameters of the OPEN received on ITS connection)
	holdIn, holdOut := 90, 90
	switch op.Count % 3 {
	case 1:
		holdOut = 30
	case 2:
		holdIn = 30
	}
	z.mu.Lock()
	z.holds = map[string]int{"in": holdIn, "out": holdOut}
	z.mu.Unlock()
	openIn := w.buildOpenSpec(cfg, openSpec{Kind: "valid", Hold: holdIn, Families: []string{"ipv4-unicast"}, AS: cfg.AS})
	openOut := w.buildOpenSpec(cfg, openSpec{Kind: "valid", Hold: holdOut, Families: []string{"ipv4-unicast"}, AS: cfg.AS})
	gid := netip.MustParseAddr(w.sc.Global.RouterID).As4()
	pid := netip.MustParseAddr(cfg.RouterID).As4()
	g := uint32(gid[0])<<24 | uint32(gid[1])<<16 | uint32(gid[2])<<8 | uint32(gid[3])
	p := uint32(pid[0])<<24 | uint32(pid[1])<<16 | uint32(pid[2])<<8 | uint32(pid[3])
	gobgpDominant := g > p || (g == p && w.sc.Global.AS > cfg.AS)
	survivor, loser := in, out
	sname := "in"
	if gobgpDominant {
		survivor, loser, sname = out, in, "out"
	}
	switch op.Arg {
	case "both":
		// same virtual instant on both connections; which one gobgp reads first is the scheduler's choice
		if op.N%2 == 1 {
			out.c.Write(openOut)
			in.c.Write(openIn)
		} else {
			in.c.Write(openIn)
			out.c.Write(openOut)
		}
		z.mu.Lock()
		z.opened["in"], z.opened["out"] = true, true
		z.survivor = sname
		z.mu.Unlock()
		// the neighbour has now seen gobgp's OPEN on both: it closes the connection the rule dooms
		if op.Count >= 5 {
			time.Sleep(time.Duration(op.Count) * time.Millisecond)
		}
		loser.c.Write(notificationBytes(6, 7, nil))
		loser.c.Close()
		w.probe("collide_plan_both")
		if gobgpDominant {
			w.probe("collide_gobgp_dominant")
		} else {
			w.probe("collide_neighbour_dominant")
		}
		if g == p {
			w.probe("collide_equal_identifiers")
		}
	case "in":
		in.c.Write(openIn)
		survivor, sname = in, "in"
		z.mu.Lock()
		z.opened["in"] = true
		z.survivor = "in"
		z.mu.Unlock()
		w.probe("collide_plan_in_only")
	case "out":
		out.c.Write(openOut)
		survivor, sname = out, "out"
		z.mu.Lock()
		z.opened["out"] = true
		if gobgpDominant {
			z.survivor = "out"
		} else {
			// gobgp now knows the neighbour's identifier and that the neighbour's own connection
			// is the one to keep: it may drop its connection and wait for the OPEN that never
			// comes (until the OpenSent hold timer); a conformant neighbour does not do this, and
			// nothing is judged
			z.note = "plan out with a dominant neighbour: not judged"
			w.probe("collide_plan_out_not_judged")
		}
		z.mu.Unlock()
		w.probe("collide_plan_out_only")
	}
	// answer gobgp's KEEPALIVE on the surviving connection, and keep the session alive
	end := time.Now().Add(25 * time.Second)
	answered := false
	lastKA := time.Now()
	for time.Now().Before(end) {
		select {
		case <-w.stopCh:
			return
		default:
		}
		rx, closed, _ := survivor.snapshot()
		if closed {
			break
		}
		if !answered {
			for _, m := range rx {
				if m.Type == wKeepalive {
					survivor.c.Write(keepaliveBytes())
					answered = true
					w.probe("collide_keepalive_answered")
					break
				}
			}
		} else if time.Since(lastKA) >= 5*time.Second {
			survivor.c.Write(keepaliveBytes())
			lastKA = time.Now()
		}
		time.Sleep(200 * time.Millisecond)
	}
	z.mu.Lock()
	z.done = true
	z.mu.Unlock()
	if answered {
		// keep the session alive until the run ends (the negotiated hold time may be 30 s)
		go func() {
			for {
				select {
				case <-w.stopCh:
					return
				case <-time.After(5 * time.Second):
				}
				if _, err := survivor.c.Write(keepaliveBytes()); err != nil {
					return
				}
			}
		}()
	}
}

func collideCheck(w *simWorld, phase int) {
	z := w.collide()
	synctest.Wait()
	w.mu.Lock()
	w.checks++
	w.mu.Unlock()
	z.mu.Lock()
	plan, surv, note := z.plan, z.survivor, z.note
	in, out := z.in, z.out
	z.mu.Unlock()
	if surv == "" {
		w.addStateFP("collide: " + note)
		return
	}
	w.mu.Lock()
	w.nonEmpty++
	w.mu.Unlock()
	s := in
	if surv == "out" {
		s = out
	}
	rx, closed, at := s.snapshot()
	ps := w.listPeers()[w.peers[0].cfg.Addr]
	state := "?"
	if ps != nil {
		state = sessStateName[ps.State]
	}
	desc := fmt.Sprintf("plan %s, identifiers gobgp %s / neighbour %s, AS gobgp %d / neighbour %d: the connection to keep is the %s one", plan, w.sc.Global.RouterID, w.peers[0].cfg.RouterID, w.sc.Global.AS, w.peers[0].cfg.AS, map[string]string{"in": "neighbour-initiated", "out": "gobgp-initiated"}[surv])
	switch {
	case closed:
		w.violate("C07", "collision-survivor-closed", plan, fmt.Sprintf("%s, but gobgp closed it at %.3fs after %s (reported state %s)", desc, at.Seconds(), msgsString(rx), state))
	case state != "established":
		w.violate("C07", "collision-not-established", plan, fmt.Sprintf("%s; it is still open after 30 s, received %s, but the session is reported %s", desc, msgsString(rx), state))
	default:
		w.probe("collide_established_on_" + surv)
		// C08: the hold time in force is min(configured 90, the OPEN received on the surviving connection)
		z.mu.Lock()
		want := z.holds[surv]
		z.mu.Unlock()
		if ps.Peer != nil && ps.Peer.Timers != nil && ps.Peer.Timers.State != nil && want != 0 {
			if got := int(ps.Peer.Timers.State.NegotiatedHoldTime); got != want {
				w.violate("C08", "collision-parameters", plan, fmt.Sprintf("%s; the OPEN received on it offered hold time %d, the session runs with %d (the other connection's OPEN offered %d)", desc, want, got, z.holds[map[string]string{"in": "out", "out": "in"}[surv]]))
			} else if z.holds["in"] != z.holds["out"] {
				w.probe("collide_parameters_of_survivor")
			}
		}
	}
	w.addStateFP(fmt.Sprintf("collide %s %s closed=%v state=%s", plan, surv, closed, state))
	_ = api.PeerState_SESSION_STATE_ESTABLISHED
}
