package server

// Family "bfd" (C19 BFD clause, C20, C07 administrative-reset clause): neighbours configured with
// BFD.  gobgp's BFD server listens on a simulated datagram socket and its per-neighbour BFD clients
// dial simulated datagram sockets; the harness plays the remote BFD speakers with a control-packet
// codec and an RFC 5880 6.8.6 state machine written here, over a lossy, duplicating, reordering
// datagram path, goes silent (detection-time expiry), signals Down/AdminDown, sends packets with
// foreign discriminators and arbitrary byte strings, while BGP sessions flap and management calls
// add, delete, update (BFD on/off, timers) and reset the neighbours.
//
// Oracles: every datagram gobgp emits is a well-formed BFD control packet (independent parse,
// constant non-zero My Discriminator per socket, Your Discriminator only ever one this neighbour
// used, Up never claimed before anything was received); a BGP session is only ever torn down with
// the NOTIFICATION the cause prescribes (Cease/Administrative Reset for a BFD failure or a reset
// call, Cease/Peer De-configured for a deletion, Cease/Administrative Shutdown for a disable);
// no crash, hang, livelock or data race; deleting a neighbour, switching its BFD off and stopping
// the server release the BFD goroutines and sockets.

import (
	"context"
	"encoding/binary"
	"encoding/json"
	"fmt"
	"net"
	"sync"
	"testing/synctest"
	"time"

	"github.com/osrg/gobgp/v4/api"
)

func init() {
	families["bfd"] = &familyImpl{setup: bfdSetup, op: bfdOp, check: bfdCheck}
	extraGenerators["bfd"] = genBfd
}

const (
	vbfdAdminDown = 0
	vbfdDown      = 1
	vbfdInit      = 2
	vbfdUp        = 3
)

type vbfdPkt struct {
	Vers, Diag, State uint8
	Poll, Final       bool
	Mult              uint8
	My, Your          uint32
	Tx, Rx            uint32
}

func (k *vbfdPkt) bytes() []byte {
	b := make([]byte, 24)
	b[0] = k.Vers<<5 | k.Diag&0x1f
	b[1] = k.State << 6
	if k.Poll {
		b[1] |= 0x20
	}
	if k.Final {
		b[1] |= 0x10
	}
	b[2] = k.Mult
	b[3] = 24
	binary.BigEndian.PutUint32(b[4:], k.My)
	binary.BigEndian.PutUint32(b[8:], k.Your)
	binary.BigEndian.PutUint32(b[12:], k.Tx)
	binary.BigEndian.PutUint32(b[16:], k.Rx)
	return b
}

// vbfdParse is the independent reader for what gobgp emits (RFC 5880 4.1, no authentication).
func vbfdParse(b []byte) (*vbfdPkt, string) {
	if len(b) != 24 {
		return nil, fmt.Sprintf("datagram of %d octets (a control packet without authentication has 24)", len(b))
	}
	k := &vbfdPkt{Vers: b[0] >> 5, Diag: b[0] & 0x1f, State: b[1] >> 6, Poll: b[1]&0x20 != 0, Final: b[1]&0x10 != 0, Mult: b[2],
		My: binary.BigEndian.Uint32(b[4:]), Your: binary.BigEndian.Uint32(b[8:]), Tx: binary.BigEndian.Uint32(b[12:]), Rx: binary.BigEndian.Uint32(b[16:])}
	switch {
	case k.Vers != 1:
		return k, fmt.Sprintf("version %d", k.Vers)
	case b[3] != 24:
		return k, fmt.Sprintf("length field %d in a 24-octet datagram", b[3])
	case b[1]&0x04 != 0:
		return k, "authentication bit set without an authentication section"
	case b[1]&0x01 != 0:
		return k, "multipoint bit set"
	case k.Poll && k.Final:
		return k, "poll and final both set"
	case k.Mult == 0:
		return k, "detection multiplier 0"
	case k.My == 0:
		return k, "My Discriminator 0"
	case k.Diag > 8:
		return k, fmt.Sprintf("reserved diagnostic %d", k.Diag)
	}
	return k, ""
}

// bfdNbr is the remote BFD speaker next to one BGP neighbour.
type bfdNbr struct {
	idx     int
	addr    *net.UDPAddr
	mu      sync.Mutex
	state   uint8
	my      uint32
	your    uint32
	usedMy  map[uint32]bool // every My Discriminator ever sent to gobgp from this address
	sent    int             // datagrams delivered to gobgp's server socket
	rx      int             // datagrams received from gobgp
	rxUp    int
	lastRx  *vbfdPkt
	gen     *gen
	loss    string
	sockMy  map[*simUDP]uint32
	running bool
}

type simBfd struct {
	w      *simWorld
	mu     sync.Mutex
	server *simUDP
	nbrs   map[string]*bfdNbr // by address
	byIdx  map[int]*bfdNbr
	binds  int
	dials  int
}

func (w *simWorld) bfd() *simBfd { return w.fam.(*simBfd) }

type bfdPeerExtra struct {
	Enabled bool   `json:"enabled"`
	Mult    uint32 `json:"mult,omitempty"`
	RxUs    uint32 `json:"rx_us,omitempty"`
	TxUs    uint32 `json:"tx_us,omitempty"`
}

func bfdSetup(w *simWorld) error {
	z := &simBfd{w: w, nbrs: map[string]*bfdNbr{}, byIdx: map[int]*bfdNbr{}}
	w.fam = z
	for i := range w.sc.Peers {
		c := &w.sc.Peers[i]
		ip := net.ParseIP(c.Addr).To4()
		n := &bfdNbr{idx: i, addr: &net.UDPAddr{IP: ip, Port: 49152 + i}, state: vbfdDown, my: 0x1000 + uint32(i), usedMy: map[uint32]bool{}, gen: newGen(w.sc.Seed ^ uint64(0x9e37*(i+1))), sockMy: map[*simUDP]uint32{}}
		z.nbrs[ip.String()] = n
		z.byIdx[i] = n
	}
	w.net.mu.Lock()
	w.net.udpListenHook = func(u *simUDP) {
		z.mu.Lock()
		z.server = u
		z.binds++
		z.mu.Unlock()
		w.probe("bfd_server_socket_opened")
	}
	w.net.udpDialHook = func(u *simUDP) {
		z.mu.Lock()
		z.dials++
		z.mu.Unlock()
		u.onWrite = z.fromGobgp
		w.probe("bfd_client_socket_opened")
		if u.ra.Port != 3784 {
			w.violate("C19", "bfd-emitted", "destination port", fmt.Sprintf("BFD client dials %s (single-hop control packets go to port 3784)", u.ra))
		}
		if u.la.Port < 49152 {
			w.violate("C19", "bfd-emitted", "source port", fmt.Sprintf("BFD client uses source port %d (RFC 5881 4: 49152-65535)", u.la.Port))
		}
	}
	w.net.mu.Unlock()
	return nil
}

// fromGobgp sees every datagram a BFD client of gobgp writes.
func (z *simBfd) fromGobgp(u *simUDP, b []byte) {
	w := z.w
	n := z.nbrs[u.ra.IP.String()]
	k, bad := vbfdParse(b)
	if bad != "" {
		w.violate("C19", "bfd-emitted", "control packet", fmt.Sprintf("towards %s: %s (% x)", u.ra.IP, bad, b))
		return
	}
	if n == nil {
		w.violate("C19", "bfd-emitted", "unknown destination", fmt.Sprintf("control packet towards %s, which is not a BFD-enabled neighbour", u.ra.IP))
		return
	}
	n.mu.Lock()
	defer n.mu.Unlock()
	if my, ok := n.sockMy[u]; ok && my != k.My {
		w.violate("C19", "bfd-emitted", "My Discriminator changed", fmt.Sprintf("towards %s: %#x then %#x on one socket", u.ra.IP, my, k.My))
	}
	n.sockMy[u] = k.My
	if k.Your != 0 && !n.usedMy[k.Your] {
		w.violate("C19", "bfd-emitted", "Your Discriminator", fmt.Sprintf("towards %s: Your Discriminator %#x was never used by that neighbour", u.ra.IP, k.Your))
	}
	if (k.State == vbfdUp || k.State == vbfdInit) && n.sent == 0 {
		w.violate("C19", "bfd-emitted", "state", fmt.Sprintf("towards %s: state %d claimed before anything was received from that neighbour", u.ra.IP, k.State))
	}
	n.rx++
	if k.State == vbfdUp {
		n.rxUp++
	}
	n.lastRx = k
	w.probe(fmt.Sprintf("bfd_rx_state_%d", k.State))
	if !n.running {
		return
	}
	// RFC 5880 6.8.6 reception, for the remote speaker
	if k.Your != 0 && k.Your != n.my {
		return
	}
	if k.Your == 0 && k.State != vbfdDown && k.State != vbfdAdminDown {
		return
	}
	n.your = k.My
	switch k.State {
	case vbfdAdminDown:
		if n.state != vbfdDown {
			n.state = vbfdDown
		}
	case vbfdDown:
		switch n.state {
		case vbfdDown:
			n.state = vbfdInit
		case vbfdUp:
			n.state = vbfdDown
		}
	case vbfdInit:
		if n.state == vbfdDown || n.state == vbfdInit {
			n.state = vbfdUp
		}
	case vbfdUp:
		if n.state == vbfdInit {
			n.state = vbfdUp
		}
	}
	if n.state == vbfdUp {
		w.probe("bfd_neighbour_up")
	}
}

// toGobgp sends one datagram from the neighbour's address to gobgp's server socket, through the
// lossy path of the neighbour's current profile.
func (z *simBfd) toGobgp(n *bfdNbr, b []byte, from *net.UDPAddr) {
	z.mu.Lock()
	srv := z.server
	z.mu.Unlock()
	if srv == nil || srv.isClosed() {
		z.w.probe("bfd_tx_no_server_socket")
		return
	}
	n.mu.Lock()
	loss := n.loss
	r := n.gen.n(100)
	d := n.gen.n(400)
	if len(b) >= 8 {
		n.usedMy[binary.BigEndian.Uint32(b[4:])] = true
	}
	n.sent++
	n.mu.Unlock()
	// anything gobgp accepts from this address can start a session whose later loss (expiry,
	// Down, AdminDown) resets the BGP neighbour administratively
	z.w.bfdExpect(n.idx, 6, 4)
	send := func() {
		if !srv.deliver(b, from) {
			z.w.probe("bfd_tx_socket_full_or_closed")
		}
	}
	switch {
	case loss == "lossy" && r < 30:
		z.w.net.stats.fire("dgram_drop")
	case loss == "dup" && r < 30:
		z.w.net.stats.fire("dgram_dup")
		send()
		send()
	case loss == "jitter" && r < 50:
		z.w.net.stats.fire("dgram_delay")
		go func() {
			time.Sleep(time.Duration(d) * time.Millisecond)
			send()
		}()
	default:
		send()
	}
}

func genBfd(seed uint64, tier, mode string) *Script {
	g := newGen(seed)
	sc := &Script{Family: "bfd", Mode: mode, Seed: seed}
	sc.SchedSeed = g.u64() | 1
	sc.YieldN = pick(g, yieldChoices)
	sc.SelShuffle = g.p(70)
	sc.Global = GlobalCfg{AS: 65000, RouterID: "10.0.0.1"}
	np := g.rng(1, 4)
	ex := map[string]bfdPeerExtra{}
	for i := 0; i < np; i++ {
		c := PeerCfg{Idx: i, Addr: peerAddr(i), RouterID: peerRID(i), Kind: "ebgp", AS: uint32(65001 + i), Families: []string{"ipv4-unicast"}}
		if g.p(30) {
			c.Kind, c.AS = "ibgp", 65000
		}
		if g.p(20) {
			c.Late = true
		}
		e := bfdPeerExtra{Enabled: g.p(85)}
		if g.p(50) {
			e.Mult = uint32(pick(g, []int{1, 2, 3, 5, 255}))
		}
		if g.p(50) {
			e.RxUs = uint32(pick(g, []int{50000, 300000, 1000000, 2500000}))
		}
		if g.p(50) {
			e.TxUs = uint32(pick(g, []int{50000, 300000, 1000000, 2500000}))
		}
		ex[c.Addr] = e
		sc.Peers = append(sc.Peers, c)
	}
	sc.Extra, _ = json.Marshal(ex)
	nph := g.rng(1, 3)
	if tier == "thorough" {
		nph = g.rng(2, 5)
	}
	serial := 0
	for ph := 0; ph < nph; ph++ {
		var p Phase
		for i := range sc.Peers {
			c := &sc.Peers[i]
			// BGP actor
			if c.Late && ph == 0 {
				p.Ops = append(p.Ops, Op{Kind: "addpeer", Actor: -1, Peer: i, Delay: g.n(2000)})
			}
			p.Ops = append(p.Ops, Op{Kind: "up", Actor: i, Delay: g.n(1500)})
			for k := g.n(3); k > 0; k-- {
				serial++
				p.Ops = append(p.Ops, Op{Kind: "ann", Actor: i, Family: "ipv4-unicast", Prefix: pick(g, []string{"10.1.0.0/24", "10.1.1.0/24", "10.2.0.0/16"}), Tag: mkTag(i, serial),
					Attrs: &AttrSpec{Origin: 0, ASPath: []asSeg{{2, []uint32{c.AS}}}, NextHop: c.Addr, MED: -1, LocalPref: -1}, Delay: g.n(3000)})
			}
			if c.Kind == "ibgp" {
				for k := range p.Ops {
					if p.Ops[k].Kind == "ann" && p.Ops[k].Actor == i {
						p.Ops[k].Attrs.ASPath = nil
						p.Ops[k].Attrs.LocalPref = 100
					}
				}
			}
			if g.p(25) {
				p.Ops = append(p.Ops, Op{Kind: "down", Actor: i, Arg: pick(g, []string{"reset", "close", "notify"}), Delay: g.n(6000)}, Op{Kind: "up", Actor: i, Delay: g.n(3000)})
			}
			// BFD actor of the neighbour
			nb := g.rng(1, 4)
			for k := 0; k < nb; k++ {
				r := g.n(100)
				switch {
				case r < 60:
					p.Ops = append(p.Ops, Op{Kind: "bfdrun", Actor: 100 + i, Peer: i, Delay: g.n(2500), N: pick(g, []int{800, 2500, 6000, 12000, 30000}),
						Count: pick(g, []int{50, 200, 300, 1000, 1000, 2500}), Arg: pick(g, []string{"normal", "normal", "normal", "admindown-end", "down-mid", "poll", "wrongdisc", "newdisc", "mult0", "nodisc"}),
						Arg2: pick(g, []string{"none", "none", "lossy", "dup", "jitter"})})
				case r < 72:
					p.Ops = append(p.Ops, Op{Kind: "bfdrace", Actor: 100 + i, Peer: i, Delay: g.n(2500), Arg: pick(g, []string{"down", "admindown", "expiry", "expiry"}),
						Arg2: pick(g, []string{"delpeer", "delall", "delall", "off", "reset", "disable", "listpeer"})})
				case r < 88:
					p.Ops = append(p.Ops, Op{Kind: "bfdfuzz", Actor: 100 + i, Peer: i, Delay: g.n(2500), Count: g.rng(1, 20), N: int(g.u64() >> 33),
						Arg: pick(g, []string{"random", "mutate", "mutate", "short", "long", "stranger"})})
				default:
					p.Ops = append(p.Ops, Op{Kind: "wait", Actor: 100 + i, N: pick(g, []int{500, 3000, 8000})})
				}
			}
		}
		// management actor
		nm := g.n(6)
		for k := 0; k < nm; k++ {
			i := g.n(len(sc.Peers))
			r := g.n(100)
			d := pick(g, []int{0, 0, 300, 1000, 3000, 5000})
			switch {
			case r < 30:
				p.Ops = append(p.Ops, Op{Kind: "bfdconf", Actor: -1, Peer: i, Delay: d, Arg: pick(g, []string{"off", "on", "on", "timers"}), N: int(g.u64() >> 40)})
			case r < 45:
				p.Ops = append(p.Ops, Op{Kind: "delpeer", Actor: -1, Peer: i, Delay: d}, Op{Kind: "addpeer", Actor: -1, Peer: i, Delay: g.n(3000)})
			case r < 60:
				p.Ops = append(p.Ops, Op{Kind: "resetpeer", Actor: -1, Peer: i, Delay: d})
			case r < 70:
				p.Ops = append(p.Ops, Op{Kind: "disable", Actor: -1, Peer: i, Delay: d}, Op{Kind: "enable", Actor: -1, Peer: i, Delay: g.n(3000)})
			default:
				p.Ops = append(p.Ops, Op{Kind: "listpeer", Actor: -1, Peer: i, Delay: d, Count: g.rng(1, 5)})
			}
		}
		p.Settle = pick(g, []int{1, 3, 8})
		p.Check = true
		sc.Phases = append(sc.Phases, p)
	}
	sc.Final = pick(g, []string{"stop", "stopbgp", "deleteall"})
	return sc
}

func (w *simWorld) bfdExtra() map[string]bfdPeerExtra {
	m := map[string]bfdPeerExtra{}
	if len(w.sc.Extra) > 0 {
		json.Unmarshal(w.sc.Extra, &m)
	}
	return m
}

func bfdAPIConf(e bfdPeerExtra) *api.BfdPeerConfig {
	return &api.BfdPeerConfig{Enabled: e.Enabled, DesiredMinimumTxInterval: e.TxUs, RequiredMinimumReceive: e.RxUs, DetectionMultiplier: e.Mult}
}

func bfdOp(w *simWorld, actor int, op *Op) {
	z := w.bfd()
	switch op.Kind {
	case "up":
		p := w.peers[op.Peer]
		if actor >= 0 {
			p = w.peers[actor]
		}
		if p.isUp() {
			return
		}
		r := p.connectPassive(false, 8*time.Second)
		w.logf("p%d up: %v %s", p.cfg.Idx, r.ok, r.reason)
		if r.ok {
			w.probe("bgp_session_up")
		}
	case "down":
		w.peers[actor].dropSession(op.Arg)
	case "ann":
		p := w.peers[actor]
		if !p.isUp() {
			return
		}
		r := &annRoute{Tag: op.Tag, Fam: famByName(op.Family), Prefix: op.Prefix, Spec: op.Attrs, Src: actor}
		w.mu.Lock()
		w.tags[op.Tag] = r
		w.mu.Unlock()
		p.announce(r)
	case "wait":
		time.Sleep(time.Duration(op.N) * time.Millisecond)
	case "bfdrun":
		z.run(z.byIdx[op.Peer], op)
	case "bfdrace":
		z.race(z.byIdx[op.Peer], op)
	case "bfdfuzz":
		n := z.byIdx[op.Peer]
		g := newGen(uint64(op.N))
		for i := 0; i < op.Count; i++ {
			var b []byte
			from := n.addr
			switch op.Arg {
			case "random":
				b = make([]byte, g.n(60))
				for j := range b {
					b[j] = byte(g.u64())
				}
			case "short":
				b = (&vbfdPkt{Vers: 1, State: vbfdDown, Mult: 3, My: n.my, Tx: 1000000, Rx: 1000000}).bytes()[:g.n(24)]
			case "long":
				b = (&vbfdPkt{Vers: 1, State: vbfdDown, Mult: 3, My: n.my, Tx: 1000000, Rx: 1000000}).bytes()
				b = append(b, make([]byte, 1+g.n(40))...)
				if g.p(50) {
					b[3] = byte(len(b))
				}
			case "stranger":
				from = &net.UDPAddr{IP: net.IPv4(10, 200, byte(g.n(250)), byte(1+g.n(250))).To4(), Port: 50000}
				b = (&vbfdPkt{Vers: 1, State: uint8(g.n(4)), Mult: 3, My: uint32(g.u64()) | 1, Tx: 1000000, Rx: 1000000}).bytes()
			default: // mutate: a plausible packet with a few damaged fields
				n.mu.Lock()
				k := &vbfdPkt{Vers: 1, State: uint8(g.n(4)), Mult: uint8(g.n(5)), My: n.my, Your: n.your, Tx: uint32(g.n(3000000)), Rx: uint32(g.n(3000000)), Poll: g.p(20), Final: g.p(20), Diag: uint8(g.n(32))}
				n.mu.Unlock()
				if g.p(30) {
					k.Vers = uint8(g.n(8))
				}
				if g.p(30) {
					k.Your = uint32(g.u64())
				}
				if g.p(20) {
					k.My = uint32(g.u64())
				}
				if g.p(10) {
					k.Tx, k.Rx = 0xffffffff, 0xffffffff
				}
				b = k.bytes()
				if g.p(20) {
					b[1] |= byte(g.n(16))
				}
			}
			z.toGobgp(n, b, from)
			w.net.stats.fire("bfd_fuzz_" + op.Arg)
			if g.p(50) {
				time.Sleep(time.Duration(g.n(200)) * time.Millisecond)
			}
		}
	case "bfdconf":
		c := &w.sc.Peers[op.Peer]
		ex := w.bfdExtra()
		e := ex[c.Addr]
		switch op.Arg {
		case "off":
			e.Enabled = false
		case "on":
			e.Enabled = true
		default:
			g := newGen(uint64(op.N))
			e.Enabled = true
			e.Mult = uint32(pick(g, []int{0, 1, 3, 4}))
			e.RxUs = uint32(pick(g, []int{0, 100000, 400000, 2000000}))
			e.TxUs = uint32(pick(g, []int{0, 100000, 400000, 2000000}))
		}
		pr := w.apiPeer(c)
		pr.Bfd = bfdAPIConf(e)
		_, err := w.s.UpdatePeer(context.Background(), &api.UpdatePeerRequest{Peer: pr})
		w.logf("UpdatePeer %s bfd %s: %v", c.Addr, op.Arg, err)
		w.probe("bfd_conf_" + op.Arg)
	case "addpeer":
		c := &w.sc.Peers[op.Peer]
		pr := w.apiPeer(c)
		err := w.s.AddPeer(context.Background(), &api.AddPeerRequest{Peer: pr})
		w.logf("AddPeer %s: %v", c.Addr, err)
	case "delpeer":
		c := &w.sc.Peers[op.Peer]
		err := w.s.DeletePeer(context.Background(), &api.DeletePeerRequest{Address: c.Addr})
		w.logf("DeletePeer %s: %v", c.Addr, err)
		w.bfdExpect(op.Peer, 6, 3)
	case "resetpeer":
		c := &w.sc.Peers[op.Peer]
		w.bfdExpect(op.Peer, 6, 4)
		err := w.s.ResetPeer(context.Background(), &api.ResetPeerRequest{Address: c.Addr, Communication: "x"})
		w.logf("ResetPeer %s: %v", c.Addr, err)
	case "disable":
		c := &w.sc.Peers[op.Peer]
		w.bfdExpect(op.Peer, 6, 2)
		err := w.s.DisablePeer(context.Background(), &api.DisablePeerRequest{Address: c.Addr})
		w.logf("DisablePeer %s: %v", c.Addr, err)
	case "enable":
		c := &w.sc.Peers[op.Peer]
		err := w.s.EnablePeer(context.Background(), &api.EnablePeerRequest{Address: c.Addr})
		w.logf("EnablePeer %s: %v", c.Addr, err)
	case "listpeer":
		c := &w.sc.Peers[op.Peer]
		for k := 0; k < op.Count; k++ {
			err := w.s.ListPeer(context.Background(), &api.ListPeerRequest{Address: c.Addr, EnableAdvertised: true}, func(p *api.Peer) {
				if st := p.GetState().GetBfdState(); st != nil {
					w.probe("bfd_api_state_" + st.SessionState.String())
				}
			})
			if err != nil {
				w.logf("ListPeer: %v", err)
			}
			_ = w.s.GetBfdServerStats()
			time.Sleep(300 * time.Millisecond)
		}
	default:
		w.harnessError("bfd: unknown op %s", op.Kind)
	}
}

// bfdExpect notes that a management call justifies a Cease NOTIFICATION with the given subcode.
func (w *simWorld) bfdExpect(peer int, code, sub uint8) {
	w.mu.Lock()
	if w.bfdAllowed == nil {
		w.bfdAllowed = map[int]map[uint8]bool{}
	}
	if w.bfdAllowed[peer] == nil {
		w.bfdAllowed[peer] = map[uint8]bool{}
	}
	w.bfdAllowed[peer][sub] = true
	w.mu.Unlock()
}

// run plays the remote speaker for op.N milliseconds with a transmit interval of op.Count ms.
func (z *simBfd) run(n *bfdNbr, op *Op) {
	w := z.w
	n.mu.Lock()
	n.running = true
	n.loss = op.Arg2
	n.state = vbfdDown
	n.your = 0
	if op.Arg == "newdisc" {
		// a restarted remote system: new discriminator while gobgp may still remember the old one
		n.my += 0x100
	}
	n.mu.Unlock()
	end := time.Now().Add(time.Duration(op.N) * time.Millisecond)
	iv := time.Duration(op.Count) * time.Millisecond
	if iv < 10*time.Millisecond {
		iv = 10 * time.Millisecond // (a minimised script may carry 0)
	}
	mid := time.Now().Add(time.Duration(op.N/2) * time.Millisecond)
	midDone := false
	i := 0
	wasUp := false
	for time.Now().Before(end) {
		select {
		case <-w.stopCh:
			return
		default:
		}
		n.mu.Lock()
		k := &vbfdPkt{Vers: 1, State: n.state, Mult: 3, My: n.my, Your: n.your, Tx: uint32(iv.Microseconds()), Rx: uint32(iv.Microseconds())}
		if n.state == vbfdUp {
			wasUp = true
		}
		n.mu.Unlock()
		switch op.Arg {
		case "poll":
			k.Poll = i%3 == 2
		case "wrongdisc":
			if i%4 == 3 {
				k.Your ^= 0x5a5a
			}
		case "mult0":
			if i%3 == 1 {
				k.Mult = 0
			}
		case "nodisc":
			if i%3 == 1 {
				k.My = 0
			}
		case "down-mid":
			if !midDone && wasUp && time.Now().After(mid) {
				midDone = true
				n.mu.Lock()
				n.state = vbfdDown
				n.mu.Unlock()
				k.State, k.Diag = vbfdDown, 7
				w.bfdExpect(n.idx, 6, 4)
				w.probe("bfd_signalled_down")
			}
		}
		if k.State == vbfdUp || wasUp {
			// once the session was Up, its loss (expiry after we stop, or our Down) justifies an administrative reset
			w.bfdExpect(n.idx, 6, 4)
		}
		z.toGobgp(n, k.bytes(), n.addr)
		i++
		time.Sleep(iv)
	}
	if op.Arg == "admindown-end" {
		n.mu.Lock()
		k := &vbfdPkt{Vers: 1, Diag: 7, State: vbfdAdminDown, Mult: 3, My: n.my, Your: n.your, Tx: uint32(iv.Microseconds()), Rx: uint32(iv.Microseconds())}
		n.mu.Unlock()
		z.toGobgp(n, k.bytes(), n.addr)
		w.probe("bfd_signalled_admindown")
	}
	n.mu.Lock()
	n.running = false
	if wasUp {
		w.probe("bfd_run_reached_up")
	} else {
		w.probe("bfd_run_never_up")
	}
	n.mu.Unlock()
}

// race brings the BFD session Up and then lets its failure (a Down or AdminDown packet, or the
// detection-time expiry at its exact virtual instant) coincide with a management call.
func (z *simBfd) race(n *bfdNbr, op *Op) {
	w := z.w
	c := &w.sc.Peers[n.idx]
	e := w.bfdExtra()[c.Addr]
	iv := 100 * time.Millisecond
	z.run(n, &Op{Kind: "bfdrun", Peer: n.idx, N: 2500, Count: 100, Arg: "normal", Arg2: "none"})
	n.mu.Lock()
	up := n.state == vbfdUp && n.lastRx != nil && n.lastRx.State == vbfdUp
	k := &vbfdPkt{Vers: 1, Diag: 7, State: vbfdDown, Mult: 3, My: n.my, Your: n.your, Tx: uint32(iv.Microseconds()), Rx: uint32(iv.Microseconds())}
	n.mu.Unlock()
	if !up {
		w.probe("bfd_race_not_up")
		return
	}
	w.probe("bfd_race_" + op.Arg + "_" + op.Arg2)
	switch op.Arg {
	case "down":
		z.toGobgp(n, k.bytes(), n.addr)
	case "admindown":
		k.State = vbfdAdminDown
		z.toGobgp(n, k.bytes(), n.addr)
	default:
		// run() slept one interval after its last packet; gobgp's detection time is our
		// multiplier times the larger of its receive interval and our transmit interval
		rx := time.Duration(e.RxUs) * time.Microsecond
		if rx == 0 {
			rx = time.Second
		}
		if iv > rx {
			rx = iv
		}
		time.Sleep(3*rx - iv)
	}
	var wg sync.WaitGroup
	call := func(f func()) {
		wg.Add(1)
		go func() { defer wg.Done(); f() }()
	}
	ctx := context.Background()
	switch op.Arg2 {
	case "delpeer":
		w.bfdExpect(n.idx, 6, 3)
		call(func() { w.s.DeletePeer(ctx, &api.DeletePeerRequest{Address: c.Addr}) })
	case "delall":
		call(func() {
			for i := range w.sc.Peers {
				w.bfdExpect(i, 6, 3)
				w.s.DeletePeer(ctx, &api.DeletePeerRequest{Address: w.sc.Peers[i].Addr})
			}
		})
	case "off":
		pr := w.apiPeer(c)
		pr.Bfd = &api.BfdPeerConfig{}
		call(func() { w.s.UpdatePeer(ctx, &api.UpdatePeerRequest{Peer: pr}) })
	case "reset":
		call(func() { w.s.ResetPeer(ctx, &api.ResetPeerRequest{Address: c.Addr}) })
	case "disable":
		w.bfdExpect(n.idx, 6, 2)
		call(func() { w.s.DisablePeer(ctx, &api.DisablePeerRequest{Address: c.Addr}) })
	default:
		call(func() {
			w.s.ListPeer(ctx, &api.ListPeerRequest{Address: c.Addr}, func(*api.Peer) {})
		})
	}
	wg.Wait()
	time.Sleep(500 * time.Millisecond)
	switch op.Arg2 {
	case "delpeer":
		w.s.AddPeer(ctx, &api.AddPeerRequest{Peer: w.apiPeer(c)})
	case "delall":
		for i := range w.sc.Peers {
			w.s.AddPeer(ctx, &api.AddPeerRequest{Peer: w.apiPeer(&w.sc.Peers[i])})
		}
	case "disable":
		w.s.EnablePeer(ctx, &api.EnablePeerRequest{Address: c.Addr})
	case "off":
		w.s.UpdatePeer(ctx, &api.UpdatePeerRequest{Peer: w.apiPeer(c)})
	}
}

func bfdCheck(w *simWorld, phase int) {
	z := w.bfd()
	synctest.Wait()
	w.mu.Lock()
	w.checks++
	w.nonEmpty++
	allowed := w.bfdAllowed
	w.mu.Unlock()
	// every NOTIFICATION a neighbour received must be one its history justifies
	for _, p := range w.peers {
		p.mu.Lock()
		nl := append([]wNotif(nil), p.notifs...)
		p.mu.Unlock()
		w.mu.Lock()
		if w.bfdSeen == nil {
			w.bfdSeen = map[int]int{}
		}
		from := w.bfdSeen[p.cfg.Idx]
		w.bfdSeen[p.cfg.Idx] = len(nl)
		w.mu.Unlock()
		for _, nf := range nl[from:] {
			// (hold-timer expiry is never expected: the harness keeps its sessions alive)
			ok := nf.Code == 6 && allowed[p.cfg.Idx][nf.Sub]
			w.probe(fmt.Sprintf("bgp_notification_%d_%d", nf.Code, nf.Sub))
			if !ok {
				w.violate("C07", "bfd-family-notification", fmt.Sprintf("%d/%d", nf.Code, nf.Sub), fmt.Sprintf("neighbour %s received NOTIFICATION %d/%d which nothing in its history (BFD failure, reset, disable, deletion) prescribes", p.cfg.Addr, nf.Code, nf.Sub))
			}
		}
	}
	z.mu.Lock()
	fp := fmt.Sprintf("bfd binds=%d dials=%d", z.binds, z.dials)
	z.mu.Unlock()
	for i := 0; i < len(w.sc.Peers); i++ {
		n := z.byIdx[i]
		n.mu.Lock()
		fp += fmt.Sprintf(" n%d:st%d:rx%d", i, n.state, n.rx)
		n.mu.Unlock()
	}
	w.addStateFP(fp)
}
