package server

// Script: the explicit, JSON-serialisable description of one simulated run.  Generators draw a
// script from the generator PRNG stream before the bubble starts; the executor consumes only the
// script (so a replay file does not depend on generator code) plus the scheduler seed and knobs.

import (
	"encoding/json"
	"fmt"
)

type gen struct{ s uint64 }

func newGen(seed uint64) *gen { return &gen{s: seed*0x9e3779b97f4a7c15 + 0x1234567} }
func (g *gen) u64() uint64 {
	g.s += 0x9e3779b97f4a7c15
	z := g.s
	z = (z ^ (z >> 30)) * 0xbf58476d1ce4e5b9
	z = (z ^ (z >> 27)) * 0x94d049bb133111eb
	return z ^ (z >> 31)
}
func (g *gen) n(n int) int {
	if n <= 0 {
		return 0
	}
	return int(g.u64() % uint64(n))
}
func (g *gen) rng(lo, hi int) int { return lo + g.n(hi-lo+1) }
func (g *gen) p(pct int) bool     { return g.n(100) < pct }
func pick[T any](g *gen, l []T) T { return l[g.n(len(l))] }

func mix(a, b uint64) uint64 {
	z := a ^ (b+0x9e3779b97f4a7c15)*0xbf58476d1ce4e5b9
	z = (z ^ (z >> 30)) * 0xbf58476d1ce4e5b9
	z = (z ^ (z >> 27)) * 0x94d049bb133111eb
	return z ^ (z >> 31)
}

type GlobalCfg struct {
	AS                uint32   `json:"as"`
	RouterID          string   `json:"router_id"`
	ConfedID          uint32   `json:"confed_id,omitempty"`
	ConfedMembers     []uint32 `json:"confed_members,omitempty"`
	AlwaysCompareMed  bool     `json:"always_compare_med,omitempty"`
	IgnoreASPathLen   bool     `json:"ignore_as_path_len,omitempty"`
	ExternalCompareID bool     `json:"external_compare_router_id,omitempty"`
	Multipath         bool     `json:"multipath,omitempty"`
	GRRestarting      bool     `json:"gr_restarting,omitempty"`
}

type GRCfg struct {
	Enabled      bool     `json:"enabled,omitempty"`
	RestartTime  int      `json:"restart_time,omitempty"` // configured on gobgp and announced by the peer
	Families     []string `json:"families,omitempty"`     // families the PEER lists in its GR capability
	NotifEnabled bool     `json:"notif,omitempty"`        // N bit both sides
	LLGR         bool     `json:"llgr,omitempty"`
	LLGRTime     int      `json:"llgr_time,omitempty"`
	LLGRTime6    int      `json:"llgr_time_v6,omitempty"` // the neighbour's long-lived stale time for IPv6 (0: as LLGRTime)
	LLGRFamilies []string `json:"llgr_families,omitempty"`
	PeerLLGR     bool     `json:"peer_llgr,omitempty"` // peer announces LLGR capability (observer capable)
	Deferral     int      `json:"deferral,omitempty"`
}

type PeerCfg struct {
	Idx         int      `json:"idx"`
	Addr        string   `json:"addr"`
	AS          uint32   `json:"as"`
	RouterID    string   `json:"router_id"`
	Kind        string   `json:"kind"` // ebgp ibgp rrclient rsclient confed
	Families    []string `json:"families"`
	AddPathRecv bool     `json:"addpath_recv,omitempty"` // gobgp accepts several paths per prefix from this peer
	SendMax     int      `json:"send_max,omitempty"`     // gobgp sends up to n paths per prefix to this peer
	HoldTime    int      `json:"hold_time,omitempty"`    // configured on gobgp
	PeerHold    int      `json:"peer_hold,omitempty"`    // announced by the peer
	NoAS4       bool     `json:"no_as4,omitempty"`       // peer is a 2-octet-only speaker
	ExtMsg      bool     `json:"ext_msg,omitempty"`      // peer announces Extended Message
	NoRefresh   bool     `json:"no_refresh,omitempty"`
	Active      bool     `json:"active,omitempty"` // gobgp dials the peer
	AllowOwnAS  int      `json:"allow_own_as,omitempty"`
	RemovePriv  string   `json:"remove_private,omitempty"` // "", "all", "replace"
	ReplacePeer bool     `json:"replace_peer_as,omitempty"`
	NoTAW       bool     `json:"no_treat_as_withdraw,omitempty"`
	PrefixLimit int      `json:"prefix_limit,omitempty"`
	Vrf         string   `json:"vrf,omitempty"`
	GR          GRCfg    `json:"gr,omitempty"`
	ImportPol   []string `json:"import_policy,omitempty"`
	ExportPol   []string `json:"export_policy,omitempty"`
	Late        bool     `json:"late,omitempty"`  // not configured at start; added by an addpeer op
	V4MP        bool     `json:"v4_mp,omitempty"` // the peer announces IPv4 unicast inside MP_REACH_NLRI (no NEXT_HOP attribute)
}

type UnknownAttr struct {
	Flags uint8  `json:"flags"`
	Type  uint8  `json:"type"`
	Hex   string `json:"hex"`
}

// AttrSpec is what a neighbour puts in an announcement (before the tag community is added).
type AttrSpec struct {
	Origin      int           `json:"origin"`
	ASPath      []asSeg       `json:"as_path"`
	NextHop     string        `json:"next_hop,omitempty"`
	MED         int64         `json:"med"`        // -1: absent
	LocalPref   int64         `json:"local_pref"` // -1: absent
	Comms       []uint32      `json:"comms,omitempty"`
	Originator  string        `json:"originator,omitempty"`
	ClusterList []string      `json:"cluster_list,omitempty"`
	ExtComms    []string      `json:"ext_comms,omitempty"` // "rt:AS:N"
	Unknown     []UnknownAttr `json:"unknown,omitempty"`
	PadComms    int           `json:"pad_comms,omitempty"` // extra communities to inflate the attribute size
	AtomicAgg   bool          `json:"atomic,omitempty"`
}

type Op struct {
	Kind   string    `json:"kind"`
	Actor  int       `json:"actor"` // peer index, or -1-k for API client k
	Delay  int       `json:"delay_ms,omitempty"`
	Peer   int       `json:"peer,omitempty"` // target peer for API ops
	Family string    `json:"family,omitempty"`
	Prefix string    `json:"prefix,omitempty"`
	PathID uint32    `json:"path_id,omitempty"`
	Attrs  *AttrSpec `json:"attrs,omitempty"`
	Count  int       `json:"count,omitempty"`
	Arg    string    `json:"arg,omitempty"`
	Arg2   string    `json:"arg2,omitempty"`
	N      int       `json:"n,omitempty"`
	Hex    string    `json:"hex,omitempty"`
	Tag    uint32    `json:"tag,omitempty"` // unique announcement tag (assigned by the generator)
}

type Phase struct {
	Ops    []Op `json:"ops"`
	Settle int  `json:"settle_s"` // virtual seconds to let pass before the quiescent check
	Check  bool `json:"check"`
}

type Script struct {
	Family     string          `json:"family"`
	Mode       string          `json:"mode,omitempty"`
	Prop       string          `json:"prop,omitempty"`
	Seed       uint64          `json:"seed"`
	SchedSeed  uint64          `json:"sched_seed"`
	YieldN     uint32          `json:"yield_n"`
	SelShuffle bool            `json:"select_shuffle"`
	Global     GlobalCfg       `json:"global"`
	Peers      []PeerCfg       `json:"peers"`
	Policies   []PolicyCfg     `json:"policies,omitempty"`
	Phases     []Phase         `json:"phases"`
	Final      string          `json:"final"` // stop | stopbgp | deleteall
	Extra      json.RawMessage `json:"extra,omitempty"`
	Net        NetCfg          `json:"net,omitempty"`
}

type NetCfg struct {
	LatencyMs int `json:"latency_ms,omitempty"`
	Fragment  int `json:"fragment,omitempty"`
	FragDelay int `json:"frag_delay_ms,omitempty"`
}

// PolicyCfg is a small subset of the policy language, enough for C15/C16/C20 workloads.
type PolicyCfg struct {
	Name     string   `json:"name"`
	Prefixes []string `json:"prefixes,omitempty"`  // prefix-set match (exact)
	Neighbor []string `json:"neighbors,omitempty"` // neighbor-set match
	Comm     string   `json:"comm,omitempty"`      // community regexp match
	Comms    []string `json:"comms,omitempty"`     // further members of the community set
	RPKI     string   `json:"rpki,omitempty"`      // valid | invalid | not-found
	Action   string   `json:"action"`              // accept | reject
	SetMED   int64    `json:"set_med,omitempty"`   // >0: set
	SetLP    int64    `json:"set_lp,omitempty"`
	AddComm  string   `json:"add_comm,omitempty"`
	Prepend  int      `json:"prepend,omitempty"`
}

func (s *Script) String() string {
	b, _ := json.Marshal(s)
	return string(b)
}

func (o Op) String() string {
	b, _ := json.Marshal(o)
	return string(b)
}

var yieldChoices = []uint32{0, 2, 3, 5, 9, 33}

// peerAddr / peerRID: last octets with one, two and three digits, so that an ordering by text
// differs from the numeric one (decision-process tie-breaks).
func peerAddr(i int) string {
	if i >= 0 && i < 8 {
		return fmt.Sprintf("10.0.0.%d", []int{2, 3, 4, 5, 10, 9, 100, 11}[i])
	}
	return fmt.Sprintf("10.0.0.%d", i+2)
}

func peerRID(i int) string {
	if i >= 0 && i < 8 {
		return fmt.Sprintf("192.168.0.%d", []int{9, 10, 100, 2, 30, 4, 5, 6}[i])
	}
	return fmt.Sprintf("192.168.0.%d", i+2)
}
