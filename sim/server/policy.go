package server

// Policy installation through the public API (a small subset of the policy language, enough for
// the C15 / C16 / C20 workloads).

import (
	"context"
	"fmt"

	"github.com/osrg/gobgp/v4/api"
)

func (w *simWorld) installPolicies() error {
	if len(w.sc.Policies) == 0 {
		return nil
	}
	l := w.sc.Policies
	if w.sc.Family == "reset" {
		l = resetEditedPolicies(w.sc)
	}
	return w.installPolicyCfgs(l)
}

func (w *simWorld) installPolicyCfgs(l []PolicyCfg) error {
	ctx := context.Background()
	for _, p := range l {
		cond := &api.Conditions{}
		if len(p.Prefixes) > 0 {
			ds := &api.DefinedSet{DefinedType: api.DefinedType_DEFINED_TYPE_PREFIX, Name: "ps-" + p.Name}
			for _, x := range p.Prefixes {
				bits := uint32(24)
				fmt.Sscanf(x[len(x)-2:], "%d", &bits)
				if x[len(x)-3] != '/' {
					fmt.Sscanf(x[len(x)-1:], "%d", &bits)
				}
				ds.Prefixes = append(ds.Prefixes, &api.Prefix{IpPrefix: x, MaskLengthMin: bits, MaskLengthMax: bits})
			}
			if err := w.s.AddDefinedSet(ctx, &api.AddDefinedSetRequest{DefinedSet: ds}); err != nil {
				return err
			}
			cond.PrefixSet = &api.MatchSet{Type: api.MatchSet_TYPE_ANY, Name: ds.Name}
		}
		if len(p.Neighbor) > 0 {
			ds := &api.DefinedSet{DefinedType: api.DefinedType_DEFINED_TYPE_NEIGHBOR, Name: "ns-" + p.Name}
			for _, n := range p.Neighbor {
				ds.List = append(ds.List, n+"/32")
			}
			if err := w.s.AddDefinedSet(ctx, &api.AddDefinedSetRequest{DefinedSet: ds}); err != nil {
				return err
			}
			cond.NeighborSet = &api.MatchSet{Type: api.MatchSet_TYPE_ANY, Name: ds.Name}
		}
		if p.Comm != "" {
			ds := &api.DefinedSet{DefinedType: api.DefinedType_DEFINED_TYPE_COMMUNITY, Name: "cs-" + p.Name, List: append([]string{p.Comm}, p.Comms...)}
			if err := w.s.AddDefinedSet(ctx, &api.AddDefinedSetRequest{DefinedSet: ds}); err != nil {
				return err
			}
			cond.CommunitySet = &api.MatchSet{Type: api.MatchSet_TYPE_ANY, Name: ds.Name}
		}
		switch p.RPKI {
		case "valid":
			cond.RpkiResult = api.ValidationState_VALIDATION_STATE_VALID
		case "invalid":
			cond.RpkiResult = api.ValidationState_VALIDATION_STATE_INVALID
		case "not-found":
			cond.RpkiResult = api.ValidationState_VALIDATION_STATE_NOT_FOUND
		}
		act := &api.Actions{}
		switch p.Action {
		case "accept":
			act.RouteAction = api.RouteAction_ROUTE_ACTION_ACCEPT
		case "reject":
			act.RouteAction = api.RouteAction_ROUTE_ACTION_REJECT
		}
		if p.SetMED > 0 {
			act.Med = &api.MedAction{Type: api.MedAction_TYPE_REPLACE, Value: p.SetMED}
		}
		if p.SetLP > 0 {
			act.LocalPref = &api.LocalPrefAction{Value: uint32(p.SetLP)}
		}
		if p.AddComm != "" {
			act.Community = &api.CommunityAction{Type: api.CommunityAction_TYPE_ADD, Communities: []string{p.AddComm}}
		}
		if p.Prepend > 0 {
			act.AsPrepend = &api.AsPrependAction{Asn: 65000, Repeat: uint32(p.Prepend)}
		}
		st := &api.Statement{Name: "st-" + p.Name, Conditions: cond, Actions: act}
		pol := &api.Policy{Name: p.Name, Statements: []*api.Statement{st}}
		if err := w.s.AddPolicy(ctx, &api.AddPolicyRequest{Policy: pol, ReferExistingStatements: false}); err != nil {
			return err
		}
	}
	return nil
}

// assignPolicy replaces the global import/export assignment (name "" = no policy).
func (w *simWorld) assignPolicy(dir string, name string) error {
	d := api.PolicyDirection_POLICY_DIRECTION_IMPORT
	if dir == "export" {
		d = api.PolicyDirection_POLICY_DIRECTION_EXPORT
	}
	pa := &api.PolicyAssignment{Name: "", Direction: d, DefaultAction: api.RouteAction_ROUTE_ACTION_ACCEPT}
	if name != "" {
		pa.Policies = []*api.Policy{{Name: name}}
	}
	return w.s.SetPolicyAssignment(context.Background(), &api.SetPolicyAssignmentRequest{Assignment: pa})
}

func prefixAPI(x string) *api.Prefix {
	bits := uint32(24)
	fmt.Sscanf(x[len(x)-2:], "%d", &bits)
	if x[len(x)-3] != '/' {
		fmt.Sscanf(x[len(x)-1:], "%d", &bits)
	}
	return &api.Prefix{IpPrefix: x, MaskLengthMin: bits, MaskLengthMax: bits}
}

// editDefinedSet changes a defined set IN PLACE through the API: members are removed with
// DeleteDefinedSet(all=false) and added with AddDefinedSet (append).
func (w *simWorld) editDefinedSet(e *setEdit) error {
	ctx := context.Background()
	mk := func(members []string) *api.DefinedSet {
		if e.Kind == "prefix" {
			ds := &api.DefinedSet{DefinedType: api.DefinedType_DEFINED_TYPE_PREFIX, Name: "ps-" + e.Policy}
			for _, m := range members {
				ds.Prefixes = append(ds.Prefixes, prefixAPI(m))
			}
			return ds
		}
		return &api.DefinedSet{DefinedType: api.DefinedType_DEFINED_TYPE_COMMUNITY, Name: "cs-" + e.Policy, List: members}
	}
	if e.Replace {
		w.probe("defined_set_replaced_" + e.Kind)
		return w.s.AddDefinedSet(ctx, &api.AddDefinedSetRequest{DefinedSet: mk(e.Final), Replace: true})
	}
	if len(e.Remove) > 0 {
		if err := w.s.DeleteDefinedSet(ctx, &api.DeleteDefinedSetRequest{DefinedSet: mk(e.Remove), All: false}); err != nil {
			return err
		}
	}
	if len(e.Add) > 0 {
		if err := w.s.AddDefinedSet(ctx, &api.AddDefinedSetRequest{DefinedSet: mk(e.Add)}); err != nil {
			return err
		}
	}
	return nil
}
