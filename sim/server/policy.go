package server

func (w *simWorld) installPolicies() error {
	if len(w.sc.Policies) == 0 {
		return nil
	}
	return w.installPolicyCfgs(w.sc.Policies)
}

func (w *simWorld) installPolicyCfgs(l []PolicyCfg) error { return nil }
