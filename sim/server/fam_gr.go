package server

// Family "gr": graceful restart (RFC 4724, RFC 8538) and long-lived graceful restart (RFC 9494) of a
// neighbour, in virtual time.  One GR-capable neighbour P announces routes over one or two families;
// observers watch what is advertised; the session is lost in various ways and comes back (or not)
// at drawn instants.  At every probe instant - in particular just before and just after each timer
// deadline - the Loc-RIB (presence, stale flag), the observers' views and the LLGR markings are
// compared with a model written from the RFC text.   (C12)

import (
	"context"
	"fmt"
	"net"
	"sort"
	"strings"
	"testing/synctest"
	"time"

	"github.com/osrg/gobgp/v4/api"
)

func init() {
	families["gr"] = &familyImpl{setup: grSetup, op: grOp, check: grCheck}
	extraGenerators["gr"] = genGR
}

type grRoute struct {
	r     *annRoute
	stale bool
	llgr  bool
	// optional: the RFC removes the route at this point, the property statement only by the time
	// End-of-RIB has arrived for every GR family of the new session: either is accepted until then
	optional bool
}

type grState struct {
	p       *simPeer
	obs     []*simPeer
	routes  map[viewKey]*grRoute
	up      bool
	gr      bool             // graceful restart negotiated on the current/last session
	grFams  map[wFamily]bool // families with preserved forwarding state (peer's capability, current/last session)
	nbit    bool
	restart bool // the peer is restarting (stale routes retained)
	dead    time.Duration
	rtime   time.Duration
	eor     map[wFamily]bool
	serial  int
	llgr    map[wFamily]time.Duration // LLGR deadline per family (0: not running)
	llgrOn  bool
	capFams []string      // families the peer will list in its next GR capability
	llgrEnd time.Duration // instant at which the last long-lived timer runs out (0: none running)
	fuzzy   bool          // LLGR with a further loss before End-of-RIB: RFC 9494 leaves the details open; checks suspended
	deleted bool          // the neighbour was removed by the operator (until it is added again): nothing of it may remain (C02)
}

func (w *simWorld) gr() *grState { return w.fam.(*grState) }

func grSetup(w *simWorld) error {
	st := &grState{p: w.peers[0], routes: map[viewKey]*grRoute{}, eor: map[wFamily]bool{}, grFams: map[wFamily]bool{}, llgr: map[wFamily]time.Duration{}}
	st.obs = w.peers[1:]
	st.capFams = append([]string(nil), st.p.cfg.GR.Families...)
	w.fam = st
	return nil
}

func genGR(seed uint64, tier, mode string) *Script {
	g := newGen(seed)
	sc := &Script{Family: "gr", Mode: mode, Seed: seed}
	sc.SchedSeed = g.u64() | 1
	sc.YieldN = pick(g, yieldChoices)
	sc.SelShuffle = g.p(70)
	sc.Global = GlobalCfg{AS: 65000, RouterID: "10.0.0.1"}
	fams := []string{"ipv4-unicast"}
	if g.p(60) {
		fams = append(fams, "ipv6-unicast")
	}
	p := PeerCfg{Idx: 0, Addr: peerAddr(0), RouterID: peerRID(0), Families: fams, Kind: "ebgp", AS: 65001}
	p.HoldTime = pick(g, []int{9, 30, 90})
	p.GR.Enabled = g.p(88)
	p.GR.RestartTime = pick(g, []int{10, 30, 60, 120})
	p.GR.NotifEnabled = g.p(50)
	p.GR.Families = []string{"ipv4-unicast"}
	if len(fams) > 1 {
		switch g.n(3) {
		case 0:
			p.GR.Families = fams
		case 1:
			p.GR.Families = []string{"ipv6-unicast"}
		}
	}
	if mode == "llgr" {
		p.GR.Enabled = true
		p.GR.LLGR, p.GR.PeerLLGR = true, true
		p.GR.LLGRTime = pick(g, []int{20, 60, 300})
		if g.p(40) {
			// the neighbour may advertise another long-lived stale time per family
			p.GR.LLGRTime6 = pick(g, []int{20, 45, 90, 300})
		}
		p.GR.LLGRFamilies = p.GR.Families
		if g.p(30) {
			p.GR.RestartTime = 0
		}
	}
	o1 := PeerCfg{Idx: 1, Addr: peerAddr(1), RouterID: peerRID(1), Families: fams, Kind: "ebgp", AS: 65002}
	o2 := PeerCfg{Idx: 2, Addr: peerAddr(2), RouterID: peerRID(2), Families: fams, Kind: "ebgp", AS: 65003}
	if mode == "llgr" {
		o1.GR.Enabled, o1.GR.RestartTime, o1.GR.Families = true, 120, fams
		o1.GR.LLGR, o1.GR.PeerLLGR, o1.GR.LLGRTime, o1.GR.LLGRFamilies = true, true, 600, fams
	}
	sc.Peers = []PeerCfg{p, o1, o2}
	var ops []Op
	add := func(o Op) { o.Actor = 0; ops = append(ops, o) }
	add(Op{Kind: "up", Peer: 1})
	add(Op{Kind: "up", Peer: 2})
	add(Op{Kind: "up", Peer: 0})
	pool := []string{"10.1.0.0/24", "10.1.1.0/24", "10.1.2.0/24", "10.1.3.0/24"}
	pool6 := []string{"2001:db8:1::/48", "2001:db8:2::/48"}
	annSome := func(n int) {
		for i := 0; i < n; i++ {
			o := Op{Kind: "ann", Family: "ipv4-unicast", Prefix: pick(g, pool)}
			if len(fams) > 1 && g.p(40) {
				o.Family, o.Prefix = "ipv6-unicast", pick(g, pool6)
			}
			if mode == "llgr" && g.p(20) {
				o.Arg = "nollgr"
			} else if g.p(35) {
				// what was announced for this prefix before goes out again unchanged (what a
				// restarted neighbour does with most of its table)
				o.Arg = "same"
			}
			add(o)
		}
	}
	annSome(g.rng(2, 6))
	add(Op{Kind: "eor", Family: "ipv4-unicast"})
	if len(fams) > 1 {
		add(Op{Kind: "eor", Family: "ipv6-unicast"})
	}
	add(Op{Kind: "probe"})
	cycles := g.rng(1, 3)
	for c := 0; c < cycles; c++ {
		loss := pick(g, []string{"reset", "reset", "close", "holdexp", "holdstall", "notif", "hardreset", "shutdown", "disable", "delpeer"})
		add(Op{Kind: "loss", Arg: loss})
		add(Op{Kind: "probe"})
		if loss == "delpeer" {
			add(Op{Kind: "addpeer"})
		} else if loss != "disable" && g.p(15) {
			// the operator removes the neighbour while its routes are (possibly) retained as stale
			add(Op{Kind: "wait", N: pick(g, []int{500, 4000})})
			add(Op{Kind: "loss", Arg: "delpeer"})
			add(Op{Kind: "probe"})
			add(Op{Kind: "addpeer"})
		}
		if loss == "disable" {
			add(Op{Kind: "wait", N: pick(g, []int{1000, 8000})})
			add(Op{Kind: "enable"})
		}
		// what happens next
		switch g.n(4) {
		case 0: // never comes back in time: walk over the deadline(s)
			if g.p(40) {
				add(Op{Kind: "wait", N: pick(g, []int{5500, 7000})})
				add(Op{Kind: "failconn", Arg: pick(g, []string{"close", "badopen", "opencofirm"})})
				add(Op{Kind: "probe"})
			}
			add(Op{Kind: "todeadline", N: -200})
			add(Op{Kind: "probe"})
			add(Op{Kind: "todeadline", N: 200})
			add(Op{Kind: "probe"})
			if mode == "llgr" {
				if g.p(50) {
					add(Op{Kind: "wait", N: pick(g, []int{5500, 7000})})
					add(Op{Kind: "failconn", Arg: pick(g, []string{"close", "badopen", "opencofirm"})})
					add(Op{Kind: "probe"})
				}
				for k := 0; k < 2; k++ { // (twice: the families may have different long-lived times)
					add(Op{Kind: "tollgr", N: -200})
					add(Op{Kind: "probe"})
					add(Op{Kind: "tollgr", N: 200})
					add(Op{Kind: "probe"})
				}
			}
			add(Op{Kind: "wait", N: 7000})
			add(Op{Kind: "up", Peer: 0})
			annSome(g.rng(1, 3))
			add(Op{Kind: "eor", Family: "ipv4-unicast"})
			if len(fams) > 1 {
				add(Op{Kind: "eor", Family: "ipv6-unicast"})
			}
		default: // reconnects inside the window
			add(Op{Kind: "wait", N: pick(g, []int{5500, 6000, 9000})})
			if g.p(25) {
				add(Op{Kind: "failconn", Arg: pick(g, []string{"close", "badopen", "opencofirm"})})
				add(Op{Kind: "probe"})
				add(Op{Kind: "wait", N: 5500})
			}
			if g.p(25) && len(fams) > 1 {
				add(Op{Kind: "capfams", Arg: pick(g, []string{"ipv4-unicast", "ipv6-unicast", "ipv4-unicast,ipv6-unicast"})})
			}
			up := Op{Kind: "up", Peer: 0}
			if g.p(70) {
				up.Arg = "rbit"
			}
			add(up)
			add(Op{Kind: "probe"})
			annSome(g.rng(0, 3))
			if g.p(25) {
				// a second loss during the restart window
				add(Op{Kind: "loss", Arg: pick(g, []string{"reset", "close"})})
				add(Op{Kind: "probe"})
				add(Op{Kind: "wait", N: 6000})
				add(Op{Kind: "up", Peer: 0, Arg: "rbit"})
				annSome(g.rng(0, 2))
			}
			if g.p(25) {
				// an UPDATE that names no route and carries one malformed attribute of the
				// attribute-discard class: it changes nothing - in particular it is no End-of-RIB
				for _, f := range fams {
					add(Op{Kind: "emptybad", Family: f})
				}
				add(Op{Kind: "probe"})
			}
			order := []string{"ipv4-unicast"}
			if len(fams) > 1 {
				order = append(order, "ipv6-unicast")
				if g.p(50) {
					order[0], order[1] = order[1], order[0]
				}
			}
			for i, f := range order {
				if i > 0 {
					add(Op{Kind: "probe"})
					if g.p(30) {
						add(Op{Kind: "wait", N: 2000})
					}
				}
				add(Op{Kind: "eor", Family: f})
			}
		}
		add(Op{Kind: "probe"})
	}
	sc.Phases = []Phase{{Ops: ops, Settle: 2, Check: true}}
	sc.Final = "stop"
	return sc
}

// ---------------------------------------------------------------- model transitions

func (st *grState) negotiate(cfg *PeerCfg) {
	st.gr = cfg.GR.Enabled
	st.nbit = cfg.GR.Enabled && cfg.GR.NotifEnabled
	st.rtime = time.Duration(cfg.GR.RestartTime) * time.Second
	st.llgrOn = cfg.GR.Enabled && cfg.GR.LLGR && cfg.GR.PeerLLGR
}

// lose applies a session loss at instant t.
func (w *simWorld) grLose(st *grState, kind string, t time.Duration) {
	graceful := false
	if st.gr && st.up {
		switch kind {
		case "reset", "close", "holdexp":
			graceful = true
		case "notif":
			graceful = st.nbit
		}
	}
	if st.llgrOn && st.restart && graceful {
		st.fuzzy = true
	}
	st.up = false
	st.eor = map[wFamily]bool{}
	if !graceful {
		st.routes = map[viewKey]*grRoute{}
		st.restart = false
		st.dead = 0
		st.llgr = map[wFamily]time.Duration{}
		w.probe("loss_nongraceful_" + kind)
		return
	}
	w.probe("loss_graceful_" + kind)
	for k, r := range st.routes {
		if st.grFams[k.Fam] {
			if r.stale && st.restart {
				// consecutive restarts (RFC 4724 4.2): a route already stale is deleted - the
				// property statement is silent; keep it as the more permissive reading and count
				w.probe("consecutive_restart_stale_route")
			}
			r.stale = true
		} else {
			delete(st.routes, k)
		}
	}
	st.restart = true
	st.dead = t + st.rtime
}

func (w *simWorld) grCatchUp(st *grState) {
	now := w.now()
	if st.restart && !st.up && st.dead != 0 && st.dead <= now {
		// restart timer expired without re-establishment
		exp := st.dead
		st.dead = 0
		if st.llgrOn {
			for k, r := range st.routes {
				lf := hasString(st.p.cfg.GR.LLGRFamilies, k.Fam.String())
				if !lf || r.r.Spec.hasComm(0xffff0007) {
					delete(st.routes, k) // not an LLGR family, or NO_LLGR
					continue
				}
				r.llgr = true
				if st.llgr[k.Fam] == 0 {
					st.llgr[k.Fam] = exp + time.Duration(st.p.cfg.GR.llgrTimeOf(k.Fam))*time.Second
				}
			}
			w.probe("llgr_started")
			st.llgrEnd = 0
			for _, fn := range st.p.cfg.GR.LLGRFamilies {
				// gobgp runs one long-lived timer per LLGR family of the neighbour, routes or not
				if hasString(st.p.cfg.Families, fn) {
					if e := exp + time.Duration(st.p.cfg.GR.llgrTimeOf(famByName(fn)))*time.Second; e > st.llgrEnd {
						st.llgrEnd = e
					}
				}
			}
			if st.llgrEnd == 0 {
				st.restart = false
			}
		} else {
			st.routes = map[viewKey]*grRoute{}
			st.restart = false
			w.probe("restart_timer_expired")
		}
	}
	for f, d := range st.llgr {
		if d != 0 && d <= now && !st.up {
			for k := range st.routes {
				if k.Fam == f {
					delete(st.routes, k)
				}
			}
			st.llgr[f] = 0
			w.probe("llgr_timer_expired")
		}
	}
	if st.llgrEnd != 0 && st.llgrEnd <= now && !st.up && st.restart {
		// every long-lived timer has run out: the neighbour is not restarting any more
		st.llgrEnd = 0
		st.restart = false
		w.probe("llgr_all_timers_expired")
	}
}

func (a *AttrSpec) hasComm(c uint32) bool {
	for _, x := range a.Comms {
		if x == c {
			return true
		}
	}
	return false
}

// ---------------------------------------------------------------- ops

// llgrTimeOf: the long-lived stale time the neighbour advertises for a family.
func (g *GRCfg) llgrTimeOf(f wFamily) int {
	if f == famV6 && g.LLGRTime6 != 0 {
		return g.LLGRTime6
	}
	return g.LLGRTime
}

func grSettle() {
	time.Sleep(20 * time.Millisecond)
	synctest.Wait()
}

func grOp(w *simWorld, actor int, op *Op) {
	st := w.gr()
	p := st.p
	synctest.Wait()
	w.grCatchUp(st)
	switch op.Kind {
	case "up":
		peer := w.peers[op.Peer]
		if peer.isUp() {
			return
		}
		if op.Peer == 0 {
			// the capability families may change between sessions
			peer.grCapFams = append([]string(nil), st.capFams...)
		}
		r := peer.connectPassive(op.Arg == "rbit", 20*time.Second)
		grSettle()
		w.grCatchUp(st)
		if !r.ok {
			w.logf("gr: p%d connect failed: %s", op.Peer, r.reason)
			w.probe("connect_failed")
			return
		}
		if op.Peer == 0 {
			st.up = true
			st.negotiate(p.cfg)
			newFams := map[wFamily]bool{}
			if st.gr {
				for _, f := range st.capFams {
					// the peer's capability decides (helper role); the local per-family setting
					// governs what gobgp itself announces
					if hasString(p.cfg.Families, f) {
						newFams[famByName(f)] = true
					}
				}
			}
			if st.restart {
				st.dead = 0
				// RFC 4724 4.2: stale routes of a family that the new capability does not list with
				// preserved forwarding state are removed at once
				for k, r := range st.routes {
					if r.stale && !newFams[k.Fam] {
						r.optional = true
						w.probe("stale_family_not_in_new_cap")
					}
				}
				if len(newFams) == 0 {
					// nothing to wait for: the stale routes have no reason to stay
					for k, r := range st.routes {
						if r.stale {
							delete(st.routes, k)
						}
					}
					st.restart = false
				}
				for f := range st.llgr {
					st.llgr[f] = 0
				}
				st.llgrEnd = 0
				if !st.gr {
					st.restart = false
				}
			}
			st.grFams = newFams
			st.eor = map[wFamily]bool{}
			w.probe("p_established")
		}
	case "failconn":
		// a reconnection attempt that fails before the session is established: nothing about
		// the retained routes or the running timers may change because of it
		if p.isUp() || st.deleted {
			return
		}
		rip := net.ParseIP(p.cfg.Addr).To4()
		a, b := w.net.pair(&net.TCPAddr{IP: w.net.serverIP, Port: 179}, &net.TCPAddr{IP: rip, Port: w.net.port()})
		select {
		case w.acceptCh <- net.NewSimTCPConn(a):
		case <-w.stopCh:
			return
		}
		s := w.newRawSess(b, "failconn")
		grSettle()
		switch op.Arg {
		case "badopen":
			// an OPEN with an unsupported version: answered with a NOTIFICATION, back to Idle
			o := w.buildOpenSpec(p.cfg, openSpec{Kind: "badversion", Hold: 90, Families: p.cfg.Families, AS: p.cfg.AS})
			b.Write(o)
		case "opencofirm":
			// a valid OPEN, then the connection goes away in OpenConfirm
			peerOpen := p.buildOpen(false)
			b.Write(peerOpen)
			grSettle()
		}
		grSettle()
		b.Close()
		_ = s
		grSettle()
		w.probe("failed_reconnection_" + op.Arg)
		if st.restart {
			w.probe("failed_reconnection_while_restarting")
		}
		w.grCatchUp(st)
	case "capfams":
		st.capFams = strings.Split(op.Arg, ",")
	case "ann":
		if !p.isUp() {
			return
		}
		fam := famByName(op.Family)
		if !p.hasFamily(fam) {
			return
		}
		st.serial++
		spec := &AttrSpec{Origin: 0, ASPath: []asSeg{{2, []uint32{65001, uint32(65100 + st.serial%7)}}}, NextHop: p.cfg.Addr, MED: -1, LocalPref: -1}
		if fam == famV6 {
			spec.NextHop = "2001:db8::2"
		}
		if op.Arg == "nollgr" {
			spec.Comms = []uint32{0xffff0007}
		}
		r := &annRoute{Tag: mkTag(0, st.serial), Fam: fam, Prefix: op.Prefix, Spec: spec, Src: 0}
		if old := st.routes[viewKey{fam, 0, op.Prefix}]; op.Arg == "same" && old != nil {
			r = &annRoute{Tag: old.r.Tag, Fam: fam, Prefix: op.Prefix, Spec: old.r.Spec, Src: 0}
			w.probe("identical_reannouncement")
		}
		w.mu.Lock()
		w.tags[r.Tag] = r
		w.mu.Unlock()
		if p.announce(r) {
			st.routes[viewKey{fam, 0, op.Prefix}] = &grRoute{r: r}
		}
		grSettle()
	case "emptybad":
		if !p.isUp() {
			return
		}
		fam := famByName(op.Family)
		if !p.hasFamily(fam) {
			return
		}
		// AGGREGATOR (optional transitive) with length 5: malformed, attribute discard (RFC 7606 7.7)
		attrs := wEncodeAttr(0xc0, 7, []byte{0, 0, 0xfd, 0xe9, 10})
		if fam != famV4 {
			attrs = append(wEncodeAttr(0x80, 15, []byte{byte(fam.AFI >> 8), byte(fam.AFI), fam.SAFI}), attrs...)
		}
		body := append([]byte{0, 0, byte(len(attrs) >> 8), byte(len(attrs))}, attrs...)
		if p.write(append(wHeader(wUpdate, len(body)), body...)) {
			w.probe("empty_update_with_discarded_attribute")
		}
		grSettle()
	case "eor":
		if !p.isUp() {
			return
		}
		fam := famByName(op.Family)
		if !p.hasFamily(fam) {
			return
		}
		p.write(buildEOR(fam))
		grSettle()
		st.eor[fam] = true
		if st.restart && st.up {
			all := true
			for f := range st.grFams {
				if !st.eor[f] {
					all = false
				}
			}
			if all {
				for k, r := range st.routes {
					if r.stale {
						delete(st.routes, k)
					}
				}
				st.restart = false
				w.probe("all_eor_purge")
			}
		}
	case "loss":
		if !p.isUp() && op.Arg != "delpeer" && op.Arg != "disable" {
			return
		}
		t := w.now()
		switch op.Arg {
		case "reset":
			p.dropSession("reset")
		case "close":
			p.dropSession("close")
		case "notif":
			p.dropSession("notify")
		case "hardreset":
			p.mu.Lock()
			c := p.conn
			p.mu.Unlock()
			if c != nil {
				c.Write(notificationBytes(6, 9, nil))
				c.Close()
			}
		case "holdstall":
			// the path to the neighbour is dead in both directions: it stops talking AND its
			// receive window is full, so gobgp's hold timer runs out and the NOTIFICATION it
			// tries to send cannot be written either
			p.mu.Lock()
			ks := p.kaStop
			hold := p.hold
			c := p.conn
			p.mu.Unlock()
			if hold == 0 || c == nil {
				p.dropSession("reset")
			} else {
				c.r.setStalled(true)
				close(ks)
				w.net.stats.fire("half_open")
				w.net.stats.fire("stall_write")
				p.waitDown(time.Duration(hold+4) * time.Second)
				c.r.setStalled(false)
				t = w.now()
			}
		case "holdexp":
			// stop talking: gobgp's hold timer runs out
			p.mu.Lock()
			ks := p.kaStop
			hold := p.hold
			p.mu.Unlock()
			if hold == 0 {
				p.dropSession("reset")
			} else {
				close(ks)
				w.net.stats.fire("half_open")
				p.waitDown(time.Duration(hold+2) * time.Second)
				t = w.now()
			}
		case "shutdown":
			_ = w.s.ShutdownPeer(context.Background(), &api.ShutdownPeerRequest{Address: p.cfg.Addr})
		case "disable":
			_ = w.s.DisablePeer(context.Background(), &api.DisablePeerRequest{Address: p.cfg.Addr})
		case "delpeer":
			_ = w.s.DeletePeer(context.Background(), &api.DeletePeerRequest{Address: p.cfg.Addr})
		}
		p.waitDown(3 * time.Second)
		grSettle()
		if op.Arg == "holdexp" || op.Arg == "holdstall" {
			w.grLose(st, "holdexp", t)
		} else {
			w.grLose(st, op.Arg, t)
		}
		if op.Arg == "delpeer" {
			st.routes = map[viewKey]*grRoute{}
			st.restart = false
			st.deleted = true
			w.probe("peer_deleted")
		}
	case "addpeer":
		if err := w.addPeer(p.cfg); err != nil {
			w.logf("addpeer: %v", err)
		}
		st.deleted = false
		grSettle()
	case "enable":
		_ = w.s.EnablePeer(context.Background(), &api.EnablePeerRequest{Address: p.cfg.Addr})
		grSettle()
	case "wait":
		time.Sleep(time.Duration(op.N) * time.Millisecond)
		synctest.Wait()
		w.grCatchUp(st)
	case "todeadline":
		if st.restart && !st.up && st.dead != 0 {
			target := st.dead + time.Duration(op.N)*time.Millisecond
			if d := target - w.now(); d > 0 {
				time.Sleep(d)
			}
			synctest.Wait()
			w.grCatchUp(st)
			w.probe("at_restart_deadline")
		}
	case "tollgr":
		var dl time.Duration
		for _, d := range st.llgr {
			if d != 0 && (dl == 0 || d < dl) {
				dl = d
			}
		}
		if dl != 0 && !st.up {
			target := dl + time.Duration(op.N)*time.Millisecond
			if d := target - w.now(); d > 0 {
				time.Sleep(d)
			}
			synctest.Wait()
			w.grCatchUp(st)
			w.probe("at_llgr_deadline")
		}
	case "probe":
		grSettle()
		w.grCatchUp(st)
		w.grCompare(st)
	default:
		w.harnessError("gr: unknown op %s", op.Kind)
	}
}

// grCompare: Loc-RIB content from P (presence, stale flag, LLGR marking) and the observers' views.
func (w *simWorld) grCompare(st *grState) {
	w.mu.Lock()
	w.checks++
	w.mu.Unlock()
	if st.fuzzy {
		w.probe("llgr_consecutive_loss_unchecked")
		return
	}
	// the neighbour's "restarting" state as reported must follow the same life cycle as its routes
	if !st.deleted {
		if ps := w.listPeers()[st.p.cfg.Addr]; ps != nil && ps.Peer.GracefulRestart != nil {
			got := ps.Peer.GracefulRestart.PeerRestarting
			want := st.restart
			now := w.now()
			near := func(d time.Duration) bool { return d != 0 && d-now < 2*time.Second && now-d < 2*time.Second }
			if got != want && !near(st.dead) && !near(st.llgrEnd) {
				w.violate("C12", "restarting-flag", fmt.Sprintf("reported=%v", got), fmt.Sprintf("ListPeer reports peer-restarting=%v, the neighbour's restart (stale routes retained, timers running) is %v (up=%v)", got, want, st.up))
			} else {
				w.probe("restarting_flag_compared")
			}
		}
	}
	// C02: the accepted counter of each family agrees with the routes retained for it (a family whose
	// routes are kept stale while another family is dropped keeps its count)
	if !st.deleted && st.up {
		// (the API reports the counters of an established session only)
		if ps := w.listPeers()[st.p.cfg.Addr]; ps != nil {
			for _, a := range ps.Peer.AfiSafis {
				if a.State == nil || a.Config == nil || a.Config.Family == nil {
					continue
				}
				n := 0
				for k := range st.routes {
					if uint16(a.Config.Family.Afi) == k.Fam.AFI && uint8(a.Config.Family.Safi) == k.Fam.SAFI {
						n++
					}
				}
				if int(a.State.Accepted) != n {
					w.violate("C02", "accepted-counter", fmt.Sprintf("p0 afi=%d", a.Config.Family.Afi), fmt.Sprintf("ListPeer accepted=%d for the family, %d of its routes are held (up=%v restarting=%v)", a.State.Accepted, n, st.up, st.restart))
				} else {
					w.probe("gr_accepted_counter_compared")
				}
			}
		}
	}
	var fp []string
	for _, fam := range st.p.families() {
		glob, err := w.listPaths(api.TableType_TABLE_TYPE_GLOBAL, "", fam, false)
		if err != nil {
			w.harnessError("ListPath: %v", err)
			return
		}
		want := map[string]*grRoute{}
		for k, r := range st.routes {
			if k.Fam == fam {
				want[k.Key] = r
			}
		}
		got := map[string]*ribPath{}
		for pfx, l := range glob {
			for _, rp := range l {
				if rp.Src == st.p.cfg.Addr {
					got[pfx] = rp
				}
			}
		}
		state := fmt.Sprintf("up=%v restarting=%v", st.up, st.restart)
		for _, pfx := range sortedKeys(want) {
			r := want[pfx]
			g := got[pfx]
			subj := fmt.Sprintf("%s %s", fam, state)
			if g == nil && r.optional {
				continue
			}
			if g == nil {
				w.violate("C12", "route-missing", subj, fmt.Sprintf("%s (tag %x, stale=%v) must still be usable but is absent from the Loc-RIB", pfx, r.r.Tag, r.stale))
				continue
			}
			if g.Tag != r.r.Tag {
				w.violate("C12", "route-wrong-version", subj, fmt.Sprintf("%s: Loc-RIB holds %x, expected %x", pfx, g.Tag, r.r.Tag))
			}
			if g.Stale != r.stale {
				w.violate("C12", "stale-flag", subj, fmt.Sprintf("%s: stale flag %v, expected %v", pfx, g.Stale, r.stale))
			}
			hasLLGR := false
			for _, c := range g.Attrs.Comms {
				if c == 0xffff0006 {
					hasLLGR = true
				}
			}
			if hasLLGR != r.llgr {
				w.violate("C12", "llgr-stale-community", subj, fmt.Sprintf("%s: LLGR_STALE community present=%v, expected %v", pfx, hasLLGR, r.llgr))
			}
			fp = append(fp, fmt.Sprintf("%s:%x:%v:%v", pfx, r.r.Tag, r.stale, r.llgr))
		}
		for _, pfx := range sortedKeys(got) {
			if want[pfx] == nil {
				w.violate("C12", "route-retained", fmt.Sprintf("%s %s", fam, state), fmt.Sprintf("%s (tag %x, stale=%v) is still in the Loc-RIB but must have been removed", pfx, got[pfx].Tag, got[pfx].Stale))
				if st.deleted {
					w.violate("C02", "routes-of-deleted-peer", fmt.Sprintf("%s %s", fam, state), fmt.Sprintf("%s (tag %x, stale=%v) from the deleted neighbour is still in the Loc-RIB", pfx, got[pfx].Tag, got[pfx].Stale))
				}
			}
		}
		if len(want) > 0 {
			w.mu.Lock()
			w.nonEmpty++
			w.mu.Unlock()
		}
		// observers: a usable route is advertised; an LLGR-stale one only to LLGR-capable peers
		for _, o := range st.obs {
			if !o.isUp() || !o.hasFamily(fam) {
				continue
			}
			view, _ := o.snapshotView()
			capable := o.cfg.GR.PeerLLGR
			for _, pfx := range sortedKeys(want) {
				r := want[pfx]
				v := view[viewKey{fam, 0, pfx}]
				should := !r.llgr || capable
				if r.optional {
					continue
				}
				if should && (v == nil || v.Tag != r.r.Tag) {
					w.violate("C12", "observer-missing", fmt.Sprintf("p%d %s %s", o.cfg.Idx, fam, state), fmt.Sprintf("%s (tag %x, stale=%v llgr=%v) not advertised to the observer", pfx, r.r.Tag, r.stale, r.llgr))
				}
				if !should && v != nil {
					w.violate("C12", "llgr-advertised-to-incapable", fmt.Sprintf("p%d %s", o.cfg.Idx, fam), fmt.Sprintf("%s is LLGR-stale but advertised to a peer that did not announce the LLGR capability", pfx))
				}
			}
			for k, v := range view {
				if k.Fam == fam && want[k.Key] == nil {
					w.violate("C12", "observer-stale", fmt.Sprintf("p%d %s %s", o.cfg.Idx, fam, state), fmt.Sprintf("%s (tag %x) still advertised to the observer after it had to be removed", k.Key, v.Tag))
				}
			}
		}
	}
	sort.Strings(fp)
	w.addStateFP(append(fp, fmt.Sprint(st.up, st.restart))...)
}

func grCheck(w *simWorld, phase int) {
	st := w.gr()
	w.grCatchUp(st)
	w.grCompare(st)
}
