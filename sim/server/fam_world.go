package server

// Family "world": several neighbours of mixed kinds over a shared prefix pool; concurrent
// announcements, withdrawals, session flaps, peer add/delete, API routes.  Quiescent checks:
//   C02  Adj-RIB-In / Loc-RIB content and counters vs the model of what was announced
//   C01  every established peer's accumulated view == export of gobgp's actual Loc-RIB
//   C09  attributes of every advertised route == rewriting model
//   C11  framing/size monitors run in simPeer's reader (all families)

import (
	"context"
	"fmt"
	"net/netip"
	"runtime"
	"sort"
	"strings"
	"sync"
	"time"

	"github.com/osrg/gobgp/v4/api"
	"github.com/osrg/gobgp/v4/pkg/apiutil"
	"github.com/osrg/gobgp/v4/pkg/packet/bgp"
)

// hostPick: group bursts of host prefixes (5-octet NLRI).  Quick tier only for now: in the larger
// scripts of the thorough tier about 1 % of the runs with this variant end with missing
// advertisements that could not be analysed before the deadline (DESIGN 9, open item; witnesses in
// findings/open-C11-host-burst/) - it is not known whether the daemon or the harness is at fault.
func hostPick(g *gen, tier string) string {
	v := pick(g, []string{"", "", "host"})
	if tier == "thorough" {
		return ""
	}
	return v
}

func init() {
	families["world"] = &familyImpl{setup: worldSetup, op: worldOp, check: worldCheck}
}

// bestStream replays the best-path notification stream (what FIB, BMP and MRT consumers see).
type bestStream struct {
	mu     sync.Mutex
	best   map[string]bestEnt // family|prefix -> announcement
	events int
}

type bestEnt struct {
	Src string
	Tag uint32
}

func worldSetup(w *simWorld) error {
	if w.sc.Global.Multipath {
		return nil
	}
	wt, err := w.s.watch(WatchBestPath(true))
	if err != nil {
		return err
	}
	bs := &bestStream{best: map[string]bestEnt{}}
	w.bestS = bs
	done := make(chan struct{})
	w.preShutdown = append(w.preShutdown, func() {
		wt.Stop()
		<-done
	})
	go func() {
		defer close(done)
		for ev := range wt.Event() {
			m, ok := ev.(*watchEventBestPath)
			if !ok {
				continue
			}
			bs.mu.Lock()
			bs.events++
			for _, p := range m.PathList {
				k := p.GetFamily().String() + "|" + p.GetNlri().String()
				if p.IsWithdraw {
					delete(bs.best, k)
					continue
				}
				e := bestEnt{}
				if s := p.GetSource(); s != nil && s.Address.IsValid() && !p.IsLocal() {
					e.Src = s.Address.String()
				}
				for _, c := range p.GetCommunities() {
					if c>>24 == 0x7e {
						e.Tag = c
					}
				}
				bs.best[k] = e
			}
			bs.mu.Unlock()
		}
	}()
	return nil
}

// ---------------------------------------------------------------- generator

type worldGenOpts struct {
	MaxPeers   int
	MaxPhases  int
	OpsPerPh   int
	Faults     bool
	Mgmt       bool
	AddPath    bool
	V6         bool
	RS         bool
	PadAttrs   bool
	Burst      bool
	NoFlapInP0 bool
	Select     bool
}

func genWorld(seed uint64, tier string, mode string) *Script {
	g := newGen(seed)
	o := worldGenOpts{MaxPeers: 5, MaxPhases: 5, OpsPerPh: 14, Faults: true, Mgmt: true, AddPath: true, V6: true, RS: true}
	if tier == "thorough" {
		o.MaxPeers, o.MaxPhases, o.OpsPerPh = 6, 8, 24
	}
	o.AddPath = false
	switch mode {
	case "addpath":
		o.AddPath = true
	case "select":
		o.Faults, o.Mgmt, o.RS, o.V6 = false, false, false, false
		o.Select = true
	case "nofault":
		o.Faults, o.Mgmt = false, false
	case "pack":
		o.PadAttrs, o.Burst = true, true
	case "restarting":
		return genRestarting(seed, tier)
	}
	sc := &Script{Family: "world", Mode: mode, Seed: seed}
	sc.SchedSeed = g.u64() | 1
	sc.YieldN = pick(g, yieldChoices)
	sc.SelShuffle = g.p(70)
	sc.Global = GlobalCfg{AS: 65000, RouterID: "10.0.0.1"}
	if o.Select {
		sc.Global.AlwaysCompareMed = g.p(40)
		sc.Global.IgnoreASPathLen = g.p(20)
		sc.Global.ExternalCompareID = g.p(30)
		o.MaxPeers = 6
		sc.Net.LatencyMs = pick(g, []int{0, 0, 50, 400, 1500})
	}
	np := g.rng(3, o.MaxPeers)
	if o.Select {
		np = g.rng(4, 6)
	}
	ebgpAS := []uint32{65001, 65002, 65003, 65004}
	nRS := 0
	for i := 0; i < np; i++ {
		c := PeerCfg{Idx: i, Addr: peerAddr(i), RouterID: peerRID(i), Families: []string{"ipv4-unicast"}}
		r := g.n(100)
		switch {
		case r < 50:
			c.Kind, c.AS = "ebgp", pick(g, ebgpAS)
		case r < 72:
			c.Kind, c.AS = "ibgp", 65000
		case r < 88:
			c.Kind, c.AS = "rrclient", 65000
		default:
			if o.RS {
				c.Kind, c.AS = "rsclient", pick(g, ebgpAS)
				nRS++
			} else {
				c.Kind, c.AS = "ebgp", pick(g, ebgpAS)
			}
		}
		if g.p(25) {
			c.AddPathRecv = true
		}
		if o.AddPath && g.p(40) {
			c.SendMax = g.rng(1, 3)
		}
		if g.p(20) {
			c.NoAS4 = true
		}
		if c.Kind == "ebgp" && !o.Select {
			if g.p(20) {
				c.ReplacePeer = true
			}
			if g.p(20) {
				c.RemovePriv = pick(g, []string{"all", "replace"})
			}
		}
		if g.p(12) && !o.Select {
			c.AllowOwnAS = g.rng(1, 2)
		}
		if g.p(30) {
			c.ExtMsg = true
		}
		if !o.Select && !o.Burst && g.p(15) {
			c.PrefixLimit = pick(g, []int{2, 3, 5}) // per family; exceeding it shuts the session down
		}
		if o.Burst && g.p(30) {
			c.V4MP = true // IPv4 unicast announced inside MP_REACH_NLRI: the stored route has no NEXT_HOP attribute
		}
		if g.p(30) {
			c.HoldTime = pick(g, []int{9, 30, 90})
		}
		if g.p(20) {
			c.PeerHold = pick(g, []int{6, 12, 45})
		}
		sc.Peers = append(sc.Peers, c)
	}
	if nRS == 1 {
		// a single route-server client sees nothing; make a second one
		for i := range sc.Peers {
			if sc.Peers[i].Kind == "ebgp" {
				sc.Peers[i].Kind = "rsclient"
				sc.Peers[i].SendMax = 0
				break
			}
		}
	}
	v6 := o.V6 && g.p(30)
	if v6 {
		for i := range sc.Peers {
			sc.Peers[i].Families = append(sc.Peers[i].Families, "ipv6-unicast")
		}
	}
	// prefix pool
	npfx := g.rng(3, 10)
	if o.Select {
		npfx = g.rng(1, 3)
	}
	var pool []string
	for i := 0; i < npfx; i++ {
		pool = append(pool, fmt.Sprintf("10.%d.%d.0/24", 1+i/4, i%4))
	}
	var pool6 []string
	if v6 {
		for i := 0; i < 4; i++ {
			pool6 = append(pool6, fmt.Sprintf("2001:db8:%x::/48", i+1))
		}
	}
	serial := 0
	asPool := []uint32{65001, 65002, 65003, 65004, 65010, 65020, 64512, 65000, 100, 200, 3000, 70001, 4200000100}
	mkAttrs := func(c *PeerCfg) *AttrSpec {
		if o.Select {
			// tiny domains so that candidates tie on the early steps
			a := &AttrSpec{Origin: g.n(2), MED: -1, LocalPref: -1, NextHop: c.Addr}
			var path []uint32
			if !isIBGPKind(c.Kind) {
				path = append(path, c.AS)
			} else if g.p(70) {
				path = append(path, pick(g, []uint32{65001, 65002}))
			}
			if g.p(40) {
				path = append(path, pick(g, []uint32{65010, 65020}))
			}
			if len(path) > 0 {
				a.ASPath = []asSeg{{2, path}}
				if len(path) > 1 && g.p(20) {
					a.ASPath = []asSeg{{2, path[:1]}, {1, append([]uint32{65030}, path[1:]...)}}
				}
			}
			if g.p(60) {
				a.MED = int64(pick(g, []int{0, 10}))
			}
			if isIBGPKind(c.Kind) {
				a.LocalPref = int64(pick(g, []int{100, 100, 100, 200}))
				if g.p(30) {
					a.LocalPref = -1
				}
			}
			return a
		}
		a := &AttrSpec{Origin: g.n(3), MED: -1, LocalPref: -1, NextHop: c.Addr}
		var path []uint32
		if !isIBGPKind(c.Kind) {
			path = append(path, c.AS)
		}
		for k := g.n(4); k > 0; k-- {
			as := pick(g, asPool)
			if as == 65000 && !g.p(15) {
				as = 65010
			}
			path = append(path, as)
		}
		if len(path) > 0 {
			a.ASPath = []asSeg{{2, path}}
			if g.p(10) && len(path) > 1 {
				a.ASPath = []asSeg{{2, path[:1]}, {1, path[1:]}}
			}
		}
		if g.p(40) {
			a.MED = int64(pick(g, []int{0, 10, 20}))
		}
		if isIBGPKind(c.Kind) {
			if g.p(70) {
				a.LocalPref = int64(pick(g, []int{50, 100, 100, 200}))
			} else {
				a.LocalPref = 100
			}
			if g.p(10) {
				a.Originator = pick(g, []string{"192.168.9.9", "10.0.0.1"})
				if a.Originator == "10.0.0.1" && !g.p(30) {
					a.Originator = "192.168.9.8"
				}
			}
			if g.p(12) {
				// already reflected by another route reflector
				a.ClusterList = pick(g, [][]string{{"192.168.8.1"}, {"192.168.8.1", "192.168.8.2"}, {"192.168.8.10", "192.168.8.9"}})
				if g.p(45) {
					// longer lists: a slice decoded from the wire has spare capacity at 3, 5, 6, 7 entries
					n := g.rng(3, 7)
					a.ClusterList = nil
					for k := 0; k < n; k++ {
						a.ClusterList = append(a.ClusterList, fmt.Sprintf("192.168.8.%d", 20+k))
					}
				}
				if g.p(12) {
					a.ClusterList = append(a.ClusterList, "10.0.0.1") // the local cluster-id: must not be used
				}
				if a.Originator == "" {
					a.Originator = "192.168.9.7"
				}
			}
		} else if g.p(8) {
			a.LocalPref = 300
		}
		for k := g.n(3); k > 0; k-- {
			a.Comms = append(a.Comms, uint32(65000)<<16|uint32(g.n(4)))
		}
		if g.p(10) {
			a.Unknown = append(a.Unknown, UnknownAttr{Flags: 0xc0, Type: 200, Hex: fmt.Sprintf("%04x", g.n(65536))})
		}
		if g.p(10) {
			a.Unknown = append(a.Unknown, UnknownAttr{Flags: 0x80, Type: 201, Hex: fmt.Sprintf("%04x", g.n(65536))})
		}
		if o.PadAttrs && g.p(50) {
			a.PadComms = pick(g, []int{10, 60, 61, 62, 63, 64, 200, 900, 990, 1000})
			if c.ExtMsg && g.p(50) {
				// larger than a 4096-octet session can carry: must be skipped towards such peers
				a.PadComms = pick(g, []int{1003, 1005, 1007, 1009, 1011, 1015, 1020, 3000, 9000})
			}
		}
		return a
	}
	mkAnn := func(c *PeerCfg) Op {
		serial++
		op := Op{Kind: "ann", Actor: c.Idx, Family: "ipv4-unicast", Prefix: pick(g, pool), Attrs: mkAttrs(c), Tag: mkTag(c.Idx, serial)}
		if v6 && g.p(30) {
			op.Family, op.Prefix = "ipv6-unicast", pick(g, pool6)
			op.Attrs.NextHop = fmt.Sprintf("2001:db8::%x", c.Idx+2)
		}
		if c.AddPathRecv {
			op.PathID = uint32(g.rng(1, 3))
		}
		if g.p(25) {
			op.Delay = g.n(300)
		}
		if o.Select && g.p(50) {
			op.Delay = g.n(4000)
		}
		return op
	}
	mkWd := func(c *PeerCfg) Op {
		op := Op{Kind: "wd", Actor: c.Idx, Family: "ipv4-unicast", Prefix: pick(g, pool)}
		if v6 && g.p(30) {
			op.Family, op.Prefix = "ipv6-unicast", pick(g, pool6)
		}
		if c.AddPathRecv {
			op.PathID = uint32(g.rng(1, 3))
		}
		return op
	}
	// phase 0: everybody comes up while already announcing
	var p0 Phase
	for i := range sc.Peers {
		c := &sc.Peers[i]
		up := Op{Kind: "up", Actor: i}
		if g.p(50) {
			up.Delay = g.n(2000)
		}
		p0.Ops = append(p0.Ops, up)
		if o.Mgmt && g.p(35) {
			// an operator looks at the neighbour while its session is coming up
			p0.Ops = append(p0.Ops, Op{Kind: pick(g, []string{"adjout", "adjout", "listpeer"}), Actor: -2 - i, Peer: i, Delay: up.Delay, Count: g.rng(2, 12)})
			// (the same virtual instant as the handshake: virtual time stands still while the
			// daemon is busy, so only calls issued at that instant can interleave with it)
		}
		for k := g.rng(1, 5); k > 0; k-- {
			p0.Ops = append(p0.Ops, mkAnn(c))
		}
	}
	p0.Settle, p0.Check = 8, true
	sc.Phases = append(sc.Phases, p0)
	if o.Select && g.p(50) {
		// "pairs" style: every destination gets exactly two candidates from two different sources,
		// so the reported best is the plain pairwise decision (no room for order effects)
		sc.Phases[0].Ops = nil
		for i := range sc.Peers {
			sc.Phases[0].Ops = append(sc.Phases[0].Ops, Op{Kind: "up", Actor: i})
		}
		pool = nil
		for i := 0; i < 12; i++ {
			pool = append(pool, fmt.Sprintf("10.%d.%d.0/24", 20+i/4, i%4))
		}
		var p1 Phase
		for _, pfx := range pool {
			a := g.n(np)
			b := (a + 1 + g.n(np-1)) % np
			for _, pi := range []int{a, b} {
				op := mkAnn(&sc.Peers[pi])
				op.Family, op.Prefix = "ipv4-unicast", pfx
				op.Attrs.NextHop = sc.Peers[pi].Addr
				if sc.Peers[pi].AddPathRecv {
					op.PathID = 1
				}
				p1.Ops = append(p1.Ops, op)
			}
		}
		p1.Settle, p1.Check = 10, true
		sc.Phases = append(sc.Phases, p1)
		sc.Final = "stop"
		return sc
	}
	nph := g.rng(2, o.MaxPhases)
	down := map[int]bool{}
	deleted := map[int]bool{}
	disabled := map[int]bool{}
	for ph := 1; ph < nph; ph++ {
		var p Phase
		nops := g.rng(3, o.OpsPerPh)
		for k := 0; k < nops; k++ {
			c := &sc.Peers[g.n(np)]
			r := g.n(100)
			switch {
			case down[c.Idx]:
				if deleted[c.Idx] {
					p.Ops = append(p.Ops, Op{Kind: "addpeer", Actor: -1, Peer: c.Idx})
					deleted[c.Idx] = false
				}
				if disabled[c.Idx] {
					p.Ops = append(p.Ops, Op{Kind: "enable", Actor: -1, Peer: c.Idx})
					disabled[c.Idx] = false
				}
				p.Ops = append(p.Ops, Op{Kind: "up", Actor: c.Idx, Delay: g.n(3000)})
				down[c.Idx] = false
			case r < 50:
				p.Ops = append(p.Ops, mkAnn(c))
			case r < 55:
				// one UPDATE withdrawing a prefix and announcing another
				op := mkAnn(c)
				if op.Family == "ipv4-unicast" && !c.V4MP {
					// (never the announced prefix itself: RFC 4271 4.3 wants such an UPDATE read as if
					// the prefix were not withdrawn, gobgp applies the withdrawal last - see DESIGN 10.3)
					if wd := pick(g, pool); wd != op.Prefix {
						op.Kind, op.Arg = "annwd", wd
					}
				}
				p.Ops = append(p.Ops, op)
			case r < 78:
				p.Ops = append(p.Ops, mkWd(c))
			case r < 84 && o.Faults:
				p.Ops = append(p.Ops, Op{Kind: "down", Actor: c.Idx, Arg: pick(g, []string{"reset", "close", "notify"}), Delay: g.n(500)})
				down[c.Idx] = true
			case r < 90:
				serial++
				op := Op{Kind: "apiadd", Actor: -1, Family: "ipv4-unicast", Prefix: pick(g, pool), Tag: mkTag(-1, serial)}
				a := &AttrSpec{Origin: g.n(3), MED: -1, LocalPref: -1, NextHop: pick(g, []string{"0.0.0.0", "10.0.0.99"})}
				if g.p(30) {
					a.MED = 5
				}
				if g.p(30) {
					a.ASPath = []asSeg{{2, []uint32{pick(g, asPool)}}}
				}
				op.Attrs = a
				p.Ops = append(p.Ops, op)
			case r < 94:
				p.Ops = append(p.Ops, Op{Kind: "apidel", Actor: -1, Family: "ipv4-unicast", Prefix: pick(g, pool)})
			case r < 95 && o.Mgmt:
				p.Ops = append(p.Ops, Op{Kind: "delpeer", Actor: -1, Peer: c.Idx, Delay: g.n(300)})
				down[c.Idx], deleted[c.Idx] = true, true
			case r < 96 && o.Mgmt:
				// administrative shutdown; the neighbour is enabled again later and must come back
				// with everything its configuration says (private-AS options, policies, limits)
				p.Ops = append(p.Ops, Op{Kind: "disable", Actor: -1, Peer: c.Idx, Delay: g.n(300)})
				down[c.Idx], disabled[c.Idx] = true, true
			case r < 98 && !c.NoRefresh:
				p.Ops = append(p.Ops, Op{Kind: "refresh", Actor: c.Idx, Family: "ipv4-unicast"})
			default:
				if o.Mgmt {
					p.Ops = append(p.Ops, Op{Kind: pick(g, []string{"softout", "softin", "softboth", "adjout", "listpeer"}), Actor: -1, Peer: c.Idx, Count: 1})
				} else {
					p.Ops = append(p.Ops, mkAnn(c))
				}
			}
		}
		if o.Burst && g.p(60) {
			c := &sc.Peers[g.n(np)]
			if !down[c.Idx] {
				serial++
				if g.p(50) {
					p.Ops = append(p.Ops, Op{Kind: "burst", Actor: c.Idx, Count: pick(g, []int{50, 300, 980, 1000, 1010, 1015, 1020, 1200, 2100}), N: g.n(200), Attrs: mkAttrs(c), Tag: mkTag(c.Idx, serial)})
				} else {
					// identical attribute sets: exercises NLRI grouping and the per-message NLRI budget
					a := mkAttrs(c)
					a.PadComms = pick(g, []int{0, 0, 100, 500, 900})
					p.Ops = append(p.Ops, Op{Kind: "gburst", Actor: c.Idx, Count: pick(g, []int{2, 7, 50, 300, 810, 814, 816, 820, 1000, 2100}), N: g.n(200), Attrs: a, Tag: mkTag(c.Idx, serial), Arg: pick(g, []string{"", "", "nh"}), Prefix: hostPick(g, tier)})
				}
				if g.p(40) {
					// the whole table goes out again as ONE batch: full-size messages, for a
					// 2-octet-AS neighbour converted (AS_TRANS + AS4_PATH) after they were packed
					t := g.n(np)
					for k := 0; k < np; k++ {
						if sc.Peers[(t+k)%np].NoAS4 && g.p(70) {
							t = (t + k) % np
							break
						}
					}
					if !down[t] && t != c.Idx {
						p.Ops = append(p.Ops, Op{Kind: "softout", Actor: c.Idx, Peer: t, Delay: 1500})
					}
				}
			}
		}
		if o.Faults && g.p(35) {
			// a slow neighbour: its receive window is full for a while, gobgp's sender blocks and
			// the changes queued meanwhile reach the packer as one batch
			c := &sc.Peers[g.n(np)]
			if !down[c.Idx] {
				p.Ops = append(p.Ops, Op{Kind: "stall", Actor: -30 - c.Idx, Peer: c.Idx, Delay: g.n(300), N: pick(g, []int{300, 1000, 2500, 6000})})
			}
		}
		p.Settle = pick(g, []int{8, 8, 12, 20})
		p.Check = true
		sc.Phases = append(sc.Phases, p)
	}
	if o.Faults && np >= 3 && g.p(25) {
		// a best-path hand-over and its undoing while one neighbour is slow: everything that
		// happens to the prefix reaches that neighbour's packer as ONE batch
		//   X announces, Y announces a better route, X withdraws, Y withdraws
		t := g.n(np)
		for i := range sc.Peers {
			if sc.Peers[i].AddPathRecv && g.p(70) {
				t = i
			}
		}
		x, y := (t+1)%np, (t+2)%np
		if !down[t] && !down[x] && !down[y] {
			var p Phase
			pfx := pick(g, pool)
			ax, ay := mkAnn(&sc.Peers[x]), mkAnn(&sc.Peers[y])
			for _, a := range []*Op{&ax, &ay} {
				a.Family, a.Prefix = "ipv4-unicast", pfx
				a.Attrs.NextHop = sc.Peers[a.Actor].Addr
				a.Attrs.LocalPref = 100
			}
			ay.Attrs.LocalPref = 200
			// (a change to another prefix first: the sender picks it up at once and then sits in the
			// blocked write, so that everything after it is still queued when the window reopens)
			a0 := mkAnn(&sc.Peers[x])
			a0.Family, a0.Delay = "ipv4-unicast", 100
			for a0.Prefix == pfx || !strings.Contains(a0.Prefix, ".") {
				a0.Prefix = pick(g, pool)
			}
			a0.Attrs.NextHop = sc.Peers[x].Addr
			p.Ops = append(p.Ops, a0)
			ax.Delay, ay.Delay = 100, 400
			wx := Op{Kind: "wd", Actor: x, Family: "ipv4-unicast", Prefix: pfx, PathID: ax.PathID, Delay: 400}
			wy := Op{Kind: "wd", Actor: y, Family: "ipv4-unicast", Prefix: pfx, PathID: ay.PathID, Delay: 400}
			p.Ops = append(p.Ops, Op{Kind: "stall", Actor: -30 - t, Peer: t, N: pick(g, []int{1200, 2000})}, ax, ay, wx, wy)
			p.Settle, p.Check = 8, true
			sc.Phases = append(sc.Phases, p)
		}
	}
	// last phase: bring everybody back so that the final comparison covers all peers
	var pl Phase
	for i := range sc.Peers {
		if deleted[i] {
			pl.Ops = append(pl.Ops, Op{Kind: "addpeer", Actor: -1, Peer: i})
		}
		if disabled[i] {
			pl.Ops = append(pl.Ops, Op{Kind: "enable", Actor: -1, Peer: i})
		}
	}
	for i := range sc.Peers {
		if down[i] {
			pl.Ops = append(pl.Ops, Op{Kind: "up", Actor: i, Delay: 500})
		}
	}
	if len(pl.Ops) > 0 {
		pl.Settle, pl.Check = 12, true
		sc.Phases = append(sc.Phases, pl)
	}
	sc.Final = pick(g, []string{"stop", "stop", "stopbgp", "deleteall"})
	return sc
}

// ---------------------------------------------------------------- ops

func (w *simWorld) gobgpAttrs(fam wFamily, prefix string, a *AttrSpec, tag uint32) (bgp.NLRI, []bgp.PathAttributeInterface, error) {
	pf, err := netip.ParsePrefix(prefix)
	if err != nil {
		return nil, nil, err
	}
	var nlri bgp.NLRI
	nlri, err = bgp.NewIPAddrPrefix(pf)
	if err != nil {
		return nil, nil, err
	}
	attrs := []bgp.PathAttributeInterface{bgp.NewPathAttributeOrigin(uint8(a.Origin))}
	if len(a.ASPath) > 0 {
		var params []bgp.AsPathParamInterface
		for _, s := range a.ASPath {
			params = append(params, bgp.NewAs4PathParam(s.Type, s.ASNs))
		}
		attrs = append(attrs, bgp.NewPathAttributeAsPath(params))
	}
	nh, err := netip.ParseAddr(a.NextHop)
	if err != nil {
		return nil, nil, err
	}
	if fam == famV4 {
		x, _ := bgp.NewPathAttributeNextHop(nh)
		attrs = append(attrs, x)
	} else {
		x, _ := bgp.NewPathAttributeMpReachNLRI(gobgpFamily(fam), []bgp.PathNLRI{{NLRI: nlri}}, nh)
		attrs = append(attrs, x)
	}
	if a.MED >= 0 {
		attrs = append(attrs, bgp.NewPathAttributeMultiExitDisc(uint32(a.MED)))
	}
	if a.LocalPref >= 0 {
		attrs = append(attrs, bgp.NewPathAttributeLocalPref(uint32(a.LocalPref)))
	}
	attrs = append(attrs, bgp.NewPathAttributeCommunities(specComms(a, tag)))
	return nlri, attrs, nil
}

func worldOp(w *simWorld, actor int, op *Op) {
	switch op.Kind {
	case "up":
		p := w.peers[actor]
		if p.isUp() {
			return
		}
		r := p.connectPassive(false, 12*time.Second)
		if !r.ok {
			w.logf("p%d connect failed: %s", actor, r.reason)
			w.probe("connect_failed")
		}
	case "down":
		p := w.peers[actor]
		if p.dropSession(op.Arg) {
			p.waitDown(5 * time.Second)
			w.probe("flap_" + op.Arg)
		}
	case "ann":
		p := w.peers[actor]
		r := &annRoute{Tag: op.Tag, Fam: famByName(op.Family), Prefix: op.Prefix, PathID: op.PathID, Spec: op.Attrs, Src: actor}
		w.mu.Lock()
		w.tags[op.Tag] = r
		w.mu.Unlock()
		if !p.hasFamily(r.Fam) {
			return
		}
		if p.announce(r) {
			w.probe("announce")
			w.notePrefixLimit(p, r.Fam)
		}
	case "annwd":
		// one UPDATE that withdraws a prefix and announces another
		p := w.peers[actor]
		r := &annRoute{Tag: op.Tag, Fam: famV4, Prefix: op.Prefix, PathID: op.PathID, Spec: op.Attrs, Src: actor}
		w.mu.Lock()
		w.tags[op.Tag] = r
		w.mu.Unlock()
		if p.cfg.V4MP {
			return
		}
		if p.announceAndWithdraw(r, op.Arg, op.PathID) {
			w.probe("announce_and_withdraw")
			w.notePrefixLimit(p, famV4)
		}
	case "burst":
		p := w.peers[actor]
		for i := 0; i < op.Count; i++ {
			tag := mkTag(actor, 0x8000|((op.N+i)&0x7fff))
			r := &annRoute{Tag: tag, Fam: famV4, Prefix: fmt.Sprintf("172.%d.%d.0/24", 16+((op.N+i)>>8)&0x0f, (op.N+i)&0xff), PathID: op.PathID, Spec: op.Attrs, Src: actor}
			w.mu.Lock()
			w.tags[tag] = r
			w.mu.Unlock()
			if !p.announce(r) {
				break
			}
		}
		w.probe("burst")
	case "gburst":
		// a burst whose routes carry ONE tag, i.e. byte-identical attribute sets: the daemon's packer
		// may (and should) put them into shared UPDATEs.  Arg "nh": the next hop alternates between
		// three addresses, so routes differ in nothing but the next hop.
		p := w.peers[actor]
		for i := 0; i < op.Count; i++ {
			spec := op.Attrs
			if op.Arg == "nh" {
				c := *op.Attrs
				c.NextHop = fmt.Sprintf("10.0.0.%d", 50+i%3)
				spec = &c
			}
			pfx := fmt.Sprintf("172.%d.%d.0/24", 16+((op.N+i)>>8)&0x0f, (op.N+i)&0xff)
			if op.Prefix == "host" {
				// 5-octet NLRI: the packer's worst case, messages are filled to the last octet
				pfx = fmt.Sprintf("172.%d.%d.1/32", 16+((op.N+i)>>8)&0x0f, (op.N+i)&0xff)
			}
			r := &annRoute{Tag: op.Tag, Fam: famV4, Prefix: pfx, PathID: op.PathID, Spec: spec, Src: actor}
			w.mu.Lock()
			w.tagsPfx[fmt.Sprintf("%x/%s", op.Tag, pfx)] = r
			w.mu.Unlock()
			if !p.announce(r) {
				break
			}
		}
		w.probe("group_burst")
	case "wd":
		p := w.peers[actor]
		if !p.hasFamily(famByName(op.Family)) {
			return
		}
		if p.withdraw(famByName(op.Family), op.Prefix, op.PathID) {
			w.probe("withdraw")
		}
	case "eor":
		p := w.peers[actor]
		if p.write(buildEOR(famByName(op.Family))) {
			p.mu.Lock()
			if p.eorSent != nil {
				p.eorSent[famByName(op.Family)] = w.now()
			}
			p.mu.Unlock()
			w.probe("eor_sent")
		}
	case "refresh":
		if w.peers[actor].write(buildRouteRefresh(famByName(op.Family))) {
			w.probe("route_refresh_sent")
		}
	case "apiadd":
		fam := famByName(op.Family)
		nlri, attrs, err := w.gobgpAttrs(fam, op.Prefix, op.Attrs, op.Tag)
		if err != nil {
			w.harnessError("apiadd: %v", err)
			return
		}
		r := &annRoute{Tag: op.Tag, Fam: fam, Prefix: op.Prefix, Spec: op.Attrs, Src: -1, At: w.now()}
		w.mu.Lock()
		w.tags[op.Tag] = r
		w.mu.Unlock()
		_, err = w.s.AddPath(apiutil.AddPathRequest{Paths: []*apiutil.Path{{Family: gobgpFamily(fam), Nlri: nlri, Attrs: attrs, Age: time.Now().Unix()}}})
		if err != nil {
			w.logf("AddPath error: %v", err)
			return
		}
		w.mu.Lock()
		w.local[viewKey{fam, 0, op.Prefix}] = r
		w.mu.Unlock()
		w.probe("api_add")
	case "apidel":
		fam := famByName(op.Family)
		w.mu.Lock()
		r := w.local[viewKey{fam, 0, op.Prefix}]
		w.mu.Unlock()
		if r == nil {
			return
		}
		nlri, attrs, _ := w.gobgpAttrs(fam, op.Prefix, r.Spec, r.Tag)
		err := w.s.DeletePath(apiutil.DeletePathRequest{Paths: []*apiutil.Path{{Family: gobgpFamily(fam), Nlri: nlri, Attrs: attrs}}})
		if err != nil {
			w.logf("DeletePath error: %v", err)
			return
		}
		w.mu.Lock()
		delete(w.local, viewKey{fam, 0, op.Prefix})
		w.mu.Unlock()
		w.probe("api_del")
	case "delpeer":
		// (an operator's teardown that races with a prefix-limit overrun decides which Cease the
		// neighbour gets)
		w.peers[op.Peer].forgoLimitNotification()
		err := w.s.DeletePeer(context.Background(), &api.DeletePeerRequest{Address: w.peers[op.Peer].cfg.Addr})
		w.logf("DeletePeer p%d: %v", op.Peer, err)
		if err == nil {
			w.probe("delete_peer")
			w.peers[op.Peer].waitDown(5 * time.Second)
		}
	case "addpeer":
		err := w.addPeer(w.peers[op.Peer].cfg)
		w.logf("AddPeer p%d: %v", op.Peer, err)
		if err == nil {
			w.probe("add_peer")
		}
	case "adjout", "listpeer":
		// read-only management calls, repeated a few times around the instant a session changes state
		for k := 0; k < op.Count || k == 0; k++ {
			if op.Kind == "adjout" {
				_, err := w.listPaths(api.TableType_TABLE_TYPE_ADJ_OUT, w.peers[op.Peer].cfg.Addr, famV4, false)
				if err != nil {
					w.logf("ListPath adj-out p%d: %v", op.Peer, err)
				}
			} else {
				_ = w.s.ListPeer(context.Background(), &api.ListPeerRequest{Address: w.peers[op.Peer].cfg.Addr, EnableAdvertised: true}, func(*api.Peer) {})
			}
			if k+1 < op.Count {
				runtime.Gosched()
			}
		}
		w.probe("mgmt_" + op.Kind)
	case "softin", "softout", "softboth":
		d := api.ResetPeerRequest_DIRECTION_IN
		if op.Kind == "softout" {
			d = api.ResetPeerRequest_DIRECTION_OUT
		} else if op.Kind == "softboth" {
			d = api.ResetPeerRequest_DIRECTION_BOTH
		}
		err := w.s.ResetPeer(context.Background(), &api.ResetPeerRequest{Address: w.peers[op.Peer].cfg.Addr, Soft: true, Direction: d})
		w.logf("ResetPeer soft p%d %s: %v", op.Peer, op.Kind, err)
		w.probe("soft_reset")
	case "disable":
		w.peers[op.Peer].forgoLimitNotification()
		err := w.s.DisablePeer(context.Background(), &api.DisablePeerRequest{Address: w.peers[op.Peer].cfg.Addr})
		w.logf("DisablePeer p%d: %v", op.Peer, err)
		if err == nil {
			w.probe("disable_peer")
			w.peers[op.Peer].waitDown(5 * time.Second)
		}
	case "enable":
		err := w.s.EnablePeer(context.Background(), &api.EnablePeerRequest{Address: w.peers[op.Peer].cfg.Addr})
		w.logf("EnablePeer p%d: %v", op.Peer, err)
	case "stall":
		p := w.peers[op.Peer]
		p.mu.Lock()
		c := p.conn
		p.mu.Unlock()
		if c == nil || !p.isUp() {
			return
		}
		c.r.setStalled(true)
		w.probe("neighbour_stalled")
		// a neighbour that does not read cannot be sent the Maximum-Prefixes NOTIFICATION (the
		// write times out and the connection is closed): none is owed for a limit tripped while
		// stalled, or tripped just before with the NOTIFICATION not yet arrived
		p.mu.Lock()
		p.stalled = true
		if p.limitHit {
			got := 0
			for _, n := range p.notifs {
				if n.Code == 6 && n.Sub == 1 {
					got++
				}
			}
			if got < p.limitTrips {
				p.limitTrips--
				p.limitMaybe++
				w.probe("prefix_limit_notification_forgone")
			}
		}
		p.mu.Unlock()
		time.Sleep(time.Duration(op.N) * time.Millisecond)
		p.mu.Lock()
		p.stalled = false
		p.mu.Unlock()
		c.r.setStalled(false)
	case "sleep":
	default:
		w.harnessError("world: unknown op %s", op.Kind)
	}
}

// ---------------------------------------------------------------- quiescent check

func (w *simWorld) estPeers(states map[string]*vsPeerState) []*simPeer {
	var l []*simPeer
	for _, p := range w.peers {
		ps := states[p.cfg.Addr]
		gobgpUp := ps != nil && ps.State == api.PeerState_SESSION_STATE_ESTABLISHED
		if p.isUp() != gobgpUp {
			w.probe("state_disagreement")
			w.logf("state disagreement p%d: harness up=%v gobgp=%v", p.cfg.Idx, p.isUp(), ps != nil && gobgpUp)
			continue
		}
		if gobgpUp {
			l = append(l, p)
		}
	}
	return l
}

func worldCheck(w *simWorld, phase int) {
	states := w.listPeers()
	est := w.estPeers(states)
	w.mu.Lock()
	w.checks++
	w.mu.Unlock()
	fams := []wFamily{famV4}
	for _, p := range w.peers {
		if p.hasFamily(famV6) {
			fams = append(fams, famV6)
			break
		}
	}
	var fp []string
	nonEmpty := false
	for _, fam := range fams {
		// ---- C02: Adj-RIB-In per peer
		for _, p := range est {
			if !p.hasFamily(fam) {
				continue
			}
			adj, err := w.listPaths(api.TableType_TABLE_TYPE_ADJ_IN, p.cfg.Addr, fam, false)
			if err != nil {
				w.harnessError("ListPath adj-in %s: %v", p.cfg.Addr, err)
				return
			}
			sent := p.snapshotSent()
			want := map[string]uint32{}
			for k, r := range sent {
				if k.Fam == fam {
					want[fmt.Sprintf("%s#%d", k.Key, k.PathID)] = r.Tag
				}
			}
			got := map[string]uint32{}
			for _, k := range sortedKeys(adj) {
				for _, rp := range adj[k] {
					kk := fmt.Sprintf("%s#%d", rp.Prefix, rp.RemoteID)
					if _, dup := got[kk]; dup {
						w.violate("C02", "adj-in-duplicate", fmt.Sprintf("p%d %s", p.cfg.Idx, kk), "two entries for one (prefix, path-id) in Adj-RIB-In")
					}
					got[kk] = rp.Tag
				}
			}
			for _, k := range sortedKeys(want) {
				if g, ok := got[k]; !ok {
					w.violate("C02", "adj-in-missing", fmt.Sprintf("p%d %s", p.cfg.Idx, k), fmt.Sprintf("announced (tag %x) and not withdrawn on the current session, absent from Adj-RIB-In", want[k]))
				} else if g != want[k] {
					w.violate("C02", "adj-in-stale", fmt.Sprintf("p%d %s", p.cfg.Idx, k), fmt.Sprintf("Adj-RIB-In holds announcement %x, the latest is %x", g, want[k]))
				}
			}
			for _, k := range sortedKeys(got) {
				if _, ok := want[k]; !ok {
					w.violate("C02", "adj-in-extra", fmt.Sprintf("p%d %s", p.cfg.Idx, k), fmt.Sprintf("Adj-RIB-In holds %x which was withdrawn or never announced on this session", got[k]))
				}
			}
			// table summary of the Adj-RIB-In: destinations, paths, accepted
			if ti, err := w.s.GetTable(context.Background(), &api.GetTableRequest{TableType: api.TableType_TABLE_TYPE_ADJ_IN, Name: p.cfg.Addr,
				Family: &api.Family{Afi: api.Family_Afi(fam.AFI), Safi: api.Family_Safi(fam.SAFI)}}); err == nil {
				dests := map[string]bool{}
				for k := range sent {
					if k.Fam == fam {
						dests[k.Key] = true
					}
				}
				if int(ti.NumPath) != len(want) || int(ti.NumDestination) != len(dests) {
					w.violate("C02", "table-summary", fmt.Sprintf("p%d adj-in %s", p.cfg.Idx, fam), fmt.Sprintf("GetTable reports %d destination(s) and %d path(s), the Adj-RIB-In holds %d destination(s) and %d path(s)", ti.NumDestination, ti.NumPath, len(dests), len(want)))
				}
				w.probe("table_summary_compared")
			}
			// counters
			if ps := states[p.cfg.Addr]; ps != nil {
				for _, a := range ps.Peer.AfiSafis {
					if a.State == nil || a.State.Family == nil || uint16(a.State.Family.Afi) != fam.AFI || uint8(a.State.Family.Safi) != fam.SAFI {
						continue
					}
					if int(a.State.Received) != len(want) {
						w.violate("C02", "received-counter", fmt.Sprintf("p%d %s", p.cfg.Idx, fam), fmt.Sprintf("ListPeer received=%d, model Adj-RIB-In has %d", a.State.Received, len(want)))
					}
					acc := 0
					for k, r := range sent {
						if k.Fam == fam && w.inboundUsable(r, p.cfg) {
							acc++
						}
					}
					if int(a.State.Accepted) != acc {
						w.violate("C02", "accepted-counter", fmt.Sprintf("p%d %s", p.cfg.Idx, fam), fmt.Sprintf("ListPeer accepted=%d, model says %d of %d pass the loop checks", a.State.Accepted, acc, len(want)))
					}
				}
			}
		}
		// ---- C02: prefix-limit accounting: one Cease / Maximum Number of Prefixes Reached per session
		// whose Adj-RIB-In exceeded the configured maximum, and none otherwise
		if fam == famV4 {
			for _, p := range w.peers {
				if p.cfg.PrefixLimit <= 0 {
					continue
				}
				p.mu.Lock()
				got := 0
				for _, n := range p.notifs {
					if n.Code == 6 && n.Sub == 1 {
						got++
					}
				}
				want, up := p.limitTrips, p.up
				hit := p.limitHit
				maybe := p.limitMaybe
				p.mu.Unlock()
				if got < want || (hit && up) {
					w.violate("C02", "prefix-limit-not-enforced", fmt.Sprintf("p%d limit=%d", p.cfg.Idx, p.cfg.PrefixLimit), fmt.Sprintf("the Adj-RIB-In exceeded the limit %d time(s), %d Cease/Maximum-Prefixes NOTIFICATION(s) were received, session up=%v", want, got, up))
				} else if got > want+maybe {
					w.violate("C02", "prefix-limit-early", fmt.Sprintf("p%d limit=%d", p.cfg.Idx, p.cfg.PrefixLimit), fmt.Sprintf("%d Cease/Maximum-Prefixes NOTIFICATION(s) received, the model counts %d excess(es)", got, want))
				}
				if want > 0 {
					w.probe("prefix_limit_checked")
				}
			}
		}
		// ---- C02: Loc-RIB content (global table)
		glob, err := w.listPaths(api.TableType_TABLE_TYPE_GLOBAL, "", fam, false)
		if err != nil {
			w.harnessError("ListPath global: %v", err)
			return
		}
		want := map[string]uint32{} // prefix|src|pathid -> tag
		for _, p := range est {
			if p.cfg.Kind == "rsclient" || !p.hasFamily(fam) {
				continue
			}
			for k, r := range p.snapshotSent() {
				if k.Fam != fam || !w.inboundUsable(r, p.cfg) {
					continue
				}
				want[fmt.Sprintf("%s|%s|%d", k.Key, p.cfg.Addr, k.PathID)] = r.Tag
			}
		}
		w.mu.Lock()
		for k, r := range w.local {
			if k.Fam == fam {
				want[fmt.Sprintf("%s||0", k.Key)] = r.Tag
			}
		}
		w.mu.Unlock()
		// table summary of the global table against what ListPath shows at the same quiescent point
		if ti, err := w.s.GetTable(context.Background(), &api.GetTableRequest{TableType: api.TableType_TABLE_TYPE_GLOBAL,
			Family: &api.Family{Afi: api.Family_Afi(fam.AFI), Safi: api.Family_Safi(fam.SAFI)}}); err == nil {
			np := 0
			for _, l := range glob {
				np += len(l)
			}
			if int(ti.NumDestination) != len(glob) || int(ti.NumPath) != np {
				w.violate("C02", "table-summary", fmt.Sprintf("global %s", fam), fmt.Sprintf("GetTable reports %d destination(s) and %d path(s), ListPath shows %d destination(s) and %d path(s)", ti.NumDestination, ti.NumPath, len(glob), np))
			}
		}
		if bs := w.bestS; bs != nil {
			// ---- C02: the best-path notification stream, replayed in order, gives the best-path table
			bs.mu.Lock()
			seen := map[string]bool{}
			for _, k := range sortedKeys(glob) {
				for _, rp := range glob[k] {
					if !rp.Best {
						continue
					}
					key := gobgpFamily(fam).String() + "|" + rp.Prefix
					seen[key] = true
					e, ok := bs.best[key]
					switch {
					case !ok:
						w.violate("C02", "best-stream-missing", key, fmt.Sprintf("the best path (from %q, announcement %x) was never notified to best-path watchers", rp.Src, rp.Tag))
					case e.Tag != rp.Tag || e.Src != rp.Src:
						w.violate("C02", "best-stream-stale", key, fmt.Sprintf("the notification stream ends with the route from %q (announcement %x), the Loc-RIB's best path is from %q (announcement %x)", e.Src, e.Tag, rp.Src, rp.Tag))
					}
				}
			}
			pre := gobgpFamily(fam).String() + "|"
			var ks []string
			for k := range bs.best {
				ks = append(ks, k)
			}
			sort.Strings(ks)
			for _, k := range ks {
				if strings.HasPrefix(k, pre) && !seen[k] {
					w.violate("C02", "best-stream-leftover", k, fmt.Sprintf("the notification stream still holds the route from %q (announcement %x) for a destination without a best path", bs.best[k].Src, bs.best[k].Tag))
				}
			}
			if bs.events > 0 {
				w.probe("best_stream_compared")
			}
			bs.mu.Unlock()
		}
		got := map[string]uint32{}
		for _, k := range sortedKeys(glob) {
			for i, rp := range glob[k] {
				kk := fmt.Sprintf("%s|%s|%d", rp.Prefix, rp.Src, rp.RemoteID)
				if _, dup := got[kk]; dup {
					w.violate("C02", "loc-rib-duplicate", kk, "two Loc-RIB entries for one (destination, source, path-id)")
				}
				got[kk] = rp.Tag
				w.checkStored(rp)
				if rp.Best != (i == 0) && !w.sc.Global.Multipath {
					w.violate("C02", "best-flag", kk, fmt.Sprintf("best flag %v at position %d", rp.Best, i))
				}
			}
		}
		for _, k := range sortedKeys(want) {
			if g, ok := got[k]; !ok {
				w.violate("C02", "loc-rib-missing", k, fmt.Sprintf("usable route %x absent from the Loc-RIB", want[k]))
			} else if g != want[k] {
				w.violate("C02", "loc-rib-stale", k, fmt.Sprintf("Loc-RIB holds announcement %x, the latest is %x", g, want[k]))
			}
		}
		for _, k := range sortedKeys(got) {
			if _, ok := want[k]; !ok {
				w.violate("C02", "loc-rib-extra", k, fmt.Sprintf("Loc-RIB holds %x: withdrawn, from an ended session, a removed peer, or failing the loop checks", got[k]))
			}
		}
		if len(got) > 0 {
			nonEmpty = true
		}
		// ---- C03: the path gobgp reports as best vs the decision process over the same candidates
		for _, k := range sortedKeys(glob) {
			w.checkBest(k, glob[k])
		}
		// ---- C01 / C09: per-peer views vs export of the actual Loc-RIB
		for _, p := range est {
			if !p.hasFamily(fam) {
				continue
			}
			if w.sc.Global.GRRestarting {
				// C12, restarting speaker: nothing is advertised to a peer before every GR peer has sent
				// End-of-RIB or that peer's deferral timer fired
				switch w.restartHold(p) {
				case "held":
					view, keys := p.snapshotView()
					for _, k := range keys {
						if k.Fam == fam {
							w.violate("C12", "advertised-while-deferring", fmt.Sprintf("p%d(%s)", p.cfg.Idx, p.cfg.Kind),
								fmt.Sprintf("%s (tag %x) was advertised although the restarting speaker is still waiting for End-of-RIB from its GR peers and the deferral timer (%d s from establishment at %.1fs) has not fired", k, view[k].Tag, p.cfg.GR.Deferral, p.upAt.Seconds()))
							break
						}
					}
					w.probe("restart_hold_checked")
					continue
				case "unknown":
					w.probe("restart_hold_uncertain")
					continue
				}
				w.probe("restart_released_checked")
			}
			var table map[string][]*ribPath
			if p.cfg.Kind == "rsclient" {
				table, err = w.listPaths(api.TableType_TABLE_TYPE_LOCAL, p.cfg.Addr, fam, false)
				if err != nil {
					w.harnessError("ListPath local %s: %v", p.cfg.Addr, err)
					return
				}
			} else {
				table = glob
			}
			w.checkPeerView(p, fam, table)
			view, keys := p.snapshotView()
			for _, k := range keys {
				if k.Fam == fam {
					fp = append(fp, fmt.Sprintf("p%d:%s:%x", p.cfg.Idx, k, view[k].Tag))
				}
			}
		}
		for _, k := range sortedKeys(got) {
			fp = append(fp, fmt.Sprintf("rib:%s:%x", k, got[k]))
		}
	}
	if nonEmpty {
		w.mu.Lock()
		w.nonEmpty++
		w.mu.Unlock()
	}
	for _, p := range w.peers {
		fp = append(fp, fmt.Sprintf("p%d-up=%v", p.cfg.Idx, p.isUp()))
	}
	w.addStateFP(fp...)
}

// checkPeerView compares one established peer's accumulated view with the export of the table
// gobgp actually holds (C01), including attributes (C09).
func (w *simWorld) checkPeerView(p *simPeer, fam wFamily, table map[string][]*ribPath) {
	view, keys := p.snapshotView()
	t := p.cfg
	subj := func(s string) string { return fmt.Sprintf("p%d(%s) %s", t.Idx, t.Kind, s) }
	addpath := p.dec.AddPath[fam]
	byPrefix := map[string][]viewKey{}
	for _, k := range keys {
		if k.Fam == fam {
			byPrefix[k.Key] = append(byPrefix[k.Key], k)
		}
	}
	lookup := func(rp *ribPath) (*annRoute, *PeerCfg) {
		r := w.annByTag(rp.Tag, rp.Prefix)
		if r == nil {
			return nil, nil
		}
		if rp.Src == "" {
			return r, nil
		}
		sp := w.peerByAddr(rp.Src)
		if sp == nil {
			return r, nil
		}
		return r, sp.cfg
	}
	seen := map[string]bool{}
	for _, prefix := range sortedKeys(table) {
		paths := table[prefix]
		seen[prefix] = true
		if t.Kind == "rsclient" {
			// the per-client table still lists the client's own routes and AS-looping ones; the
			// client must get the first path that is neither.
			var cand []*ribPath
			for _, rp := range paths {
				if rp.Src == t.Addr || pathHasAS(rp.Attrs.ASPath, t.AS) {
					continue
				}
				cand = append(cand, rp)
			}
			paths = cand
		}
		type elig struct {
			rp   *ribPath
			r    *annRoute
			src  *PeerCfg
			alts []*rAttrs
		}
		var el []elig
		var bestWhy string
		for i, rp := range paths {
			r, src := lookup(rp)
			if r == nil {
				w.harnessError("path without known tag in table: %s tag=%x", prefix, rp.Tag)
				return
			}
			ok, why := w.exportable(r, src, t)
			if i == 0 {
				bestWhy = why
			}
			if ok {
				el = append(el, elig{rp, r, src, w.exportAttrs(r, src, t)})
			}
			if !addpath {
				break
			}
		}
		got := byPrefix[prefix]
		// C11: a route whose single-route UPDATE exceeds the session's maximum cannot be sent; it is
		// skipped (the peer then holds nothing, or what it was told before) and nothing else suffers
		{
			var keep []elig
			for _, e := range el {
				min := 1 << 30
				for _, a := range e.alts {
					if l := updateWireLen(a, fam, p.dec.AS2, addpath); l < min {
						min = l
					}
				}
				if min > p.maxLen-9 && min <= p.maxLen {
					w.probe("route_exactly_at_limit") // within the old packer's worst-case slack: must be sent (D35)
				}
				if min > p.maxLen {
					w.probe("oversize_route_for_session")
					if len(byPrefix[prefix]) == 0 {
						w.probe("oversize_route_skipped")
					}
					continue
				}
				keep = append(keep, e)
			}
			if len(keep) != len(el) {
				if !addpath {
					// best path unsendable: no expectation for this prefix
					continue
				}
				el = keep
			}
		}
		if !addpath {
			if len(el) == 0 {
				if len(got) > 0 {
					v := view[got[0]]
					w.violate("C01", "stale-advertisement", subj(prefix), fmt.Sprintf("peer still holds announcement %x but the current best path must not be advertised to it (%s)", v.Tag, bestWhy))
				}
				continue
			}
			e := el[0]
			if len(got) == 0 {
				w.violate("C01", "missing-advertisement", subj(prefix), fmt.Sprintf("best path %x (from %q) is exportable to the peer but the peer holds no route for the prefix", e.r.Tag, e.rp.Src))
				continue
			}
			v := view[got[0]]
			if v.Tag != e.r.Tag {
				w.violate("C01", "wrong-route", subj(prefix), fmt.Sprintf("peer holds announcement %x, the best path is %x (from %q)", v.Tag, e.r.Tag, e.rp.Src))
				continue
			}
			if !matchAny(v.Attrs, e.alts) {
				w.violate("C09", "export-attributes", subj(prefix)+fmt.Sprintf(" src=%s", srcKind(e.src)), fmt.Sprintf("observed {%s} expected {%s}", normalizeObserved(v.Attrs), altsString(e.alts)))
			}
			w.probe("view_route_checked")
			continue
		}
		// ADD-PATH towards this peer
		max := t.SendMax
		wantN := len(el)
		if wantN > max {
			wantN = max
		}
		byTag := map[uint32]elig{}
		for _, e := range el {
			byTag[e.r.Tag] = e
		}
		gotTags := map[uint32]bool{}
		for _, k := range got {
			v := view[k]
			e, ok := byTag[v.Tag]
			if !ok {
				w.violate("C01", "stale-advertisement", subj(prefix), fmt.Sprintf("peer holds announcement %x under path-id %d which is not an eligible path of the Loc-RIB", v.Tag, k.PathID))
				continue
			}
			if gotTags[v.Tag] {
				w.violate("C01", "addpath-duplicate", subj(prefix), fmt.Sprintf("announcement %x advertised under two path identifiers", v.Tag))
			}
			gotTags[v.Tag] = true
			if !matchAny(v.Attrs, e.alts) {
				w.violate("C09", "export-attributes", subj(prefix)+fmt.Sprintf(" src=%s", srcKind(e.src)), fmt.Sprintf("observed {%s} expected {%s}", normalizeObserved(v.Attrs), altsString(e.alts)))
			}
		}
		if len(got) > max {
			w.violate("C01", "addpath-over-send-max", subj(prefix), fmt.Sprintf("%d paths advertised, send-max is %d", len(got), max))
		}
		if len(gotTags) < wantN {
			w.violate("C01", "missing-advertisement", subj(prefix), fmt.Sprintf("%d eligible paths, send-max %d, but the peer holds only %d", len(el), max, len(gotTags)))
		}
		if len(el) > max {
			w.probe("send_max_binding")
		}
		w.probe("view_route_checked")
	}
	for _, prefix := range sortedKeys(byPrefix) {
		if !seen[prefix] {
			v := view[byPrefix[prefix][0]]
			w.violate("C01", "stale-advertisement", subj(prefix), fmt.Sprintf("peer still holds announcement %x but the destination has left the Loc-RIB", v.Tag))
		}
	}
}

func srcKind(c *PeerCfg) string {
	if c == nil {
		return "local"
	}
	return c.Kind
}

var _ = strings.Join
var _ = sort.Strings

// checkBest: C03 over the candidates the Loc-RIB actually holds for one destination.
func (w *simWorld) checkBest(prefix string, paths []*ribPath) {
	if len(paths) < 2 {
		return
	}
	var cands []cand
	for _, rp := range paths {
		r := w.annByTag(rp.Tag, rp.Prefix)
		if r == nil {
			return
		}
		c := cand{rp: rp, r: r}
		if rp.Src != "" {
			sp := w.peerByAddr(rp.Src)
			if sp == nil {
				return
			}
			c.src = sp.cfg
		}
		cands = append(cands, c)
	}
	best, medOK, pre := w.decide(cands)
	got := cands[0]
	in := func(l []cand) bool {
		for _, c := range l {
			if c.r.Tag == got.r.Tag {
				return true
			}
		}
		return false
	}
	desc := func(l []cand) string {
		var s []string
		for _, c := range l {
			s = append(s, fmt.Sprintf("%x(from %s lp=%d len=%d origin=%d med=%d at=%.3f)", c.r.Tag, srcName(c.src), c.localPref(), asPathLen(c.r.Spec.ASPath), c.r.Spec.Origin, c.med(), c.r.At.Seconds()))
		}
		return strings.Join(s, " ")
	}
	w.probe("best_checked")
	if !medOK {
		w.probe("med_not_comparable")
		if !in(pre) {
			w.violate("C03", "best-path-pre-med", prefix, fmt.Sprintf("reported best %s is eliminated before the MED step; survivors: %s; candidates: %s", desc([]cand{got}), desc(pre), desc(cands)))
			return
		}
	}
	if len(best) > 1 {
		w.probe("best_open_choice")
	}
	if !in(best) {
		clause := "best-path"
		if w.medHazard(prefix) {
			// the destination's history contains routes whose MEDs were not mutually comparable
			// (different neighbour AS, different MED): the pairwise-ordered candidate list can be
			// left in an order that later insertions and removals do not repair
			clause = "best-path-after-noncomparable-med"
		}
		w.violate("C03", clause, prefix, fmt.Sprintf("reported best %s, decision process selects %s; candidates: %s", desc([]cand{got}), desc(best), desc(cands)))
	}
}

func srcName(c *PeerCfg) string {
	if c == nil {
		return "local"
	}
	return fmt.Sprintf("p%d/%s", c.Idx, c.Kind)
}

// medHazard: over every announcement ever made for the destination in this run, do two of them
// have different neighbour AS and different MED (so that MED was not comparable between them)?
func (w *simWorld) medHazard(prefix string) bool {
	if w.sc.Global.AlwaysCompareMed {
		return false
	}
	w.mu.Lock()
	defer w.mu.Unlock()
	var l []cand
	for _, r := range w.tags {
		if r.Prefix == prefix {
			l = append(l, cand{r: r})
		}
	}
	if len(l) < 3 {
		// the order dependence needs a third route (or a replaced one) in the destination's history;
		// with two announcements ever, the pairwise comparison is the whole decision
		return false
	}
	for i := range l {
		for j := i + 1; j < len(l); j++ {
			a, b := l[i], l[j]
			if a.med() == b.med() {
				continue
			}
			internal := asPathLen(a.r.Spec.ASPath) == 0 && asPathLen(b.r.Spec.ASPath) == 0
			same := a.neighborAS() != 0 && a.neighborAS() == b.neighborAS()
			if !internal && !same {
				return true
			}
		}
	}
	return false
}

// checkStored: the route as stored in the Loc-RIB still carries what was received (C09: producing
// a peer's copy never alters the stored route; C02: the table holds the latest announcement).
func (w *simWorld) checkStored(rp *ribPath) {
	r := w.annByTag(rp.Tag, rp.Prefix)
	if r == nil || len(w.sc.Policies) > 0 {
		return
	}
	var src *PeerCfg
	if rp.Src != "" {
		sp := w.peerByAddr(rp.Src)
		if sp == nil {
			return
		}
		src = sp.cfg
	}
	want := specAttrs(r, src)
	if src != nil && !isIBGPKind(src.Kind) && src.Kind != "rsclient" {
		want.LocalPref = -1
	}
	if src == nil {
		// API routes: gobgp may add nothing; an absent AS_PATH stays absent
		if len(r.Spec.ASPath) == 0 {
			want.HasASPath = rp.Attrs.HasASPath
		}
	}
	if r.Fam == famV6 && src != nil {
		want.NextHop = rp.Attrs.NextHop // the harness picks the v6 next hop per peer; compared in the views
	}
	g := normalizeObserved(rp.Attrs)
	ws := normalizeObserved(want)
	if g.String() != ws.String() {
		w.violate("C09", "stored-route-altered", fmt.Sprintf("%s from %s", rp.Prefix, srcKind(src)), fmt.Sprintf("Loc-RIB holds {%s}, the route was received as {%s}", g, ws))
	}
}

// ---------------------------------------------------------------- restarting speaker (C12, last clause)

// restartHold says whether the daemon, started as a restarting speaker, must still withhold its
// advertisements from p: "held", "released" or "unknown" (within two seconds of a deadline).
// Model of RFC 4724 4.1 as the statement words it: release for everybody once every configured GR
// peer is established and has sent End-of-RIB for every family of its GR capability (sticky), and
// for one peer when its deferral timer, started when its session was established, fires (sticky).
func (w *simWorld) restartHold(p *simPeer) string {
	now := w.now()
	w.mu.Lock()
	defer w.mu.Unlock()
	if w.grReleasedAll > 0 {
		if now > w.grReleasedAll+time.Second {
			return "released"
		}
		return "unknown"
	}
	all := true
	var last time.Duration
	for _, q := range w.peers {
		q.mu.Lock()
		up := q.up
		if q.upAt > last {
			last = q.upAt
		}
		for _, fn := range q.cfg.GR.Families {
			if t, ok := q.eorSent[famByName(fn)]; !ok {
				all = false
			} else if t > last {
				last = t
			}
		}
		q.mu.Unlock()
		if !up {
			all = false
		}
	}
	if all {
		// the instant the last End-of-RIB (or session) completed the condition
		w.grReleasedAll = last + time.Millisecond
		if now > w.grReleasedAll+time.Second {
			return "released"
		}
		return "unknown"
	}
	if w.grReleasedPeer == nil {
		w.grReleasedPeer = map[int]bool{}
	}
	if w.grReleasedPeer[p.cfg.Idx] {
		return "released"
	}
	p.mu.Lock()
	upAt := p.upAt
	p.mu.Unlock()
	d := time.Duration(p.cfg.GR.Deferral) * time.Second
	switch {
	case now > upAt+d+2*time.Second:
		w.grReleasedPeer[p.cfg.Idx] = true
		return "released"
	case now < upAt+d-2*time.Second:
		return "held"
	}
	return "unknown"
}

func genRestarting(seed uint64, tier string) *Script {
	g := newGen(seed)
	sc := &Script{Family: "world", Mode: "restarting", Seed: seed}
	sc.SchedSeed = g.u64() | 1
	sc.YieldN = pick(g, yieldChoices)
	sc.SelShuffle = g.p(70)
	sc.Global = GlobalCfg{AS: 65000, RouterID: "10.0.0.1", GRRestarting: true}
	np := g.rng(2, 4)
	v6 := g.p(40)
	defer0 := pick(g, []int{20, 40})
	for i := 0; i < np; i++ {
		c := PeerCfg{Idx: i, Addr: peerAddr(i), RouterID: peerRID(i), Families: []string{"ipv4-unicast"}}
		if v6 {
			c.Families = append(c.Families, "ipv6-unicast")
		}
		switch g.n(3) {
		case 0:
			c.Kind, c.AS = "ibgp", 65000
		default:
			c.Kind, c.AS = "ebgp", uint32(65001+i)
		}
		c.GR = GRCfg{Enabled: true, RestartTime: 120, Families: append([]string(nil), c.Families...), Deferral: defer0}
		if v6 && g.p(30) {
			c.GR.Families = []string{"ipv4-unicast"} // the peer preserves forwarding state for one family only
		}
		sc.Peers = append(sc.Peers, c)
	}
	pool := []string{"10.1.0.0/24", "10.1.1.0/24", "10.1.2.0/24", "10.1.3.0/24"}
	pool6 := []string{"2001:db8:1::/48", "2001:db8:2::/48"}
	serial := 0
	mkAnn := func(c *PeerCfg) Op {
		serial++
		a := &AttrSpec{Origin: g.n(3), MED: -1, LocalPref: -1, NextHop: c.Addr}
		var path []uint32
		if !isIBGPKind(c.Kind) {
			path = append(path, c.AS)
		} else {
			a.LocalPref = 100
		}
		for k := g.n(3); k > 0; k-- {
			path = append(path, pick(g, []uint32{65010, 65020, 65030}))
		}
		if len(path) > 0 {
			a.ASPath = []asSeg{{2, path}}
		}
		fam, pfx := "ipv4-unicast", pick(g, pool)
		if v6 && g.p(30) {
			fam, pfx = "ipv6-unicast", pick(g, pool6)
			a.NextHop = fmt.Sprintf("2001:db8::%d", c.Idx+2)
		}
		return Op{Kind: "ann", Actor: c.Idx, Family: fam, Prefix: pfx, Attrs: a, Tag: mkTag(c.Idx, serial), Delay: g.n(3) * 200}
	}
	eors := func(c *PeerCfg, delay int) []Op {
		var l []Op
		for _, f := range c.GR.Families {
			l = append(l, Op{Kind: "eor", Actor: c.Idx, Family: f, Delay: delay})
			delay = 0
		}
		return l
	}
	late := -1
	if np > 2 && g.p(40) {
		late = g.n(np)
	}
	sentEOR := map[int]bool{}
	// phase 0: sessions come up, routes arrive, some peers finish with End-of-RIB
	var p0 Phase
	for i := range sc.Peers {
		c := &sc.Peers[i]
		if i == late {
			continue
		}
		p0.Ops = append(p0.Ops, Op{Kind: "up", Actor: i})
		for k := g.rng(1, 4); k > 0; k-- {
			p0.Ops = append(p0.Ops, mkAnn(c))
		}
		if g.p(50) {
			p0.Ops = append(p0.Ops, eors(c, 300)...)
			sentEOR[i] = true
		}
	}
	p0.Settle, p0.Check = pick(g, []int{3, 6}), true
	sc.Phases = append(sc.Phases, p0)
	// phase 1: the rest finishes, or nothing happens and the deferral timers fire, or only part of it
	var p1 Phase
	switch g.n(3) {
	case 0: // everybody finishes
		for i := range sc.Peers {
			c := &sc.Peers[i]
			if i == late {
				p1.Ops = append(p1.Ops, Op{Kind: "up", Actor: i})
				p1.Ops = append(p1.Ops, mkAnn(c))
			}
			if !sentEOR[i] {
				p1.Ops = append(p1.Ops, eors(c, 500)...)
				sentEOR[i] = true
			}
		}
		p1.Settle = 6
	case 1: // silence: deferral
		for i := range sc.Peers {
			if g.p(40) && i != late {
				p1.Ops = append(p1.Ops, mkAnn(&sc.Peers[i]))
			}
		}
		p1.Settle = defer0 + 6
	default: // part of it
		for i := range sc.Peers {
			c := &sc.Peers[i]
			if i != late && !sentEOR[i] && g.p(50) {
				p1.Ops = append(p1.Ops, eors(c, 200)...)
				sentEOR[i] = true
			}
		}
		if late >= 0 && g.p(50) {
			p1.Ops = append(p1.Ops, Op{Kind: "up", Actor: late}, mkAnn(&sc.Peers[late]))
			late = -2
		}
		p1.Settle = pick(g, []int{4, defer0 + 6})
	}
	// while (possibly) still held: things that must not make the speaker talk early
	for i := range sc.Peers {
		c := &sc.Peers[i]
		if i == late || late == -2 && g.p(50) {
			continue
		}
		switch g.n(8) {
		case 0: // a graceful loss and re-establishment of a peer (it re-announces nothing and finishes again)
			p1.Ops = append(p1.Ops, Op{Kind: "down", Actor: i, Arg: "reset", Delay: 800}, Op{Kind: "up", Actor: i, Delay: 1200})
			// it finishes with End-of-RIB again (otherwise the routes of its previous session are
			// retained as stale for the restart time, which this family's table model leaves to `gr`)
			p1.Ops = append(p1.Ops, eors(c, 300)...)
			sentEOR[i] = true
			if p1.Settle < 8 {
				p1.Settle = 8
			}
		case 1: // the peer asks for the table
			p1.Ops = append(p1.Ops, Op{Kind: "refresh", Actor: i, Family: "ipv4-unicast", Delay: 900})
		case 2: // the operator asks for a re-advertisement
			p1.Ops = append(p1.Ops, Op{Kind: "softout", Actor: -1, Peer: i, Delay: 900})
		}
	}
	p1.Check = true
	sc.Phases = append(sc.Phases, p1)
	// phase 2: whatever is left; afterwards everybody must have been released
	var p2 Phase
	for i := range sc.Peers {
		c := &sc.Peers[i]
		if i == late {
			p2.Ops = append(p2.Ops, Op{Kind: "up", Actor: i}, mkAnn(c))
		}
		if g.p(60) {
			p2.Ops = append(p2.Ops, mkAnn(c))
		}
		if g.p(30) {
			p2.Ops = append(p2.Ops, Op{Kind: "wd", Actor: i, Family: "ipv4-unicast", Prefix: pick(g, pool)})
		}
	}
	p2.Settle, p2.Check = defer0+8, true
	sc.Phases = append(sc.Phases, p2)
	// phase 3: ordinary operation after the restart: churn and a flap
	var p3 Phase
	for i := range sc.Peers {
		c := &sc.Peers[i]
		for k := g.n(3); k > 0; k-- {
			p3.Ops = append(p3.Ops, mkAnn(c))
		}
		if g.p(25) {
			// a Cease NOTIFICATION without the N bit is not a graceful loss: nothing is retained
			p3.Ops = append(p3.Ops, Op{Kind: "down", Actor: i, Arg: "notify"}, Op{Kind: "up", Actor: i, Delay: 1500})
			p3.Ops = append(p3.Ops, eors(c, 300)...)
		}
	}
	p3.Settle, p3.Check = 10, true
	sc.Phases = append(sc.Phases, p3)
	sc.Final = pick(g, []string{"stop", "stopbgp"})
	return sc
}

// notePrefixLimit: the model of the prefix limit (C02): the session must be torn down with Cease /
// Maximum Number of Prefixes Reached exactly when the Adj-RIB-In of a family exceeds the configured
// maximum after an UPDATE.
func (w *simWorld) notePrefixLimit(p *simPeer, fam wFamily) {
	if p.cfg.PrefixLimit <= 0 {
		return
	}
	p.mu.Lock()
	n := 0
	for k := range p.sent {
		if k.Fam == fam {
			n++
		}
	}
	if n > p.cfg.PrefixLimit && !p.limitHit {
		p.limitHit = true
		if !p.stalled && !p.ending {
			p.limitTrips++
		} else {
			p.limitMaybe++ // a short stall may end before the write of the NOTIFICATION times out
		}
		p.mu.Unlock()
		w.probe("prefix_limit_exceeded")
		return
	}
	p.mu.Unlock()
}
