package server

// Family "mon" (C19, daemon-emitted records): BMP stations and MRT dump files.
//
// Simulated BMP stations (RFC 7854 / RFC 9069 framing and semantics written here independently of
// gobgp's bmp package) accept the daemon's BMP client over the simulated network; the MRT writer
// dumps to scratch files that an independent RFC 6396 / RFC 8050 reader parses.  While neighbours
// flap and churn routes, stations are added, removed, reset, refused and stalled, and MRT dumping
// is enabled, rotated and disabled.  At quiescent points the peers, routes and attributes a
// station (or a dump file) has been told are compared with what the daemon holds (its Adj-RIB-In,
// its Loc-RIB, its neighbour list), read through the API.

import (
	"context"
	"encoding/binary"
	"fmt"
	"io"
	"net/netip"
	"os"
	"path/filepath"
	"sort"
	"strings"
	"sync"
	"sync/atomic"
	"time"

	"github.com/osrg/gobgp/v4/api"
)

func init() {
	families["mon"] = &familyImpl{setup: monSetup, op: monOp, check: monCheck, final: monFinal}
	extraGenerators["mon"] = genMon
}

// ---------------------------------------------------------------- BMP wire (RFC 7854)

type bmpMsg struct {
	Type     uint8
	PeerType uint8
	Flags    uint8
	Dist     uint64
	Addr     netip.Addr
	AS       uint32
	ID       netip.Addr
	TS       uint32
	Body     []byte // after the per-peer header (types 0-3, 6) or after the common header (4, 5)
}

const (
	vbRouteMon = 0
	vbStats    = 1
	vbPeerDown = 2
	vbPeerUp   = 3
	vbInit     = 4
	vbTerm     = 5
	vbMirror   = 6
)

// bmpParse reads one complete BMP message (common header included).
func bmpParse(b []byte) (*bmpMsg, error) {
	if len(b) < 6 || b[0] != 3 {
		return nil, fmt.Errorf("bad common header")
	}
	m := &bmpMsg{Type: b[5]}
	rest := b[6:]
	switch m.Type {
	case vbInit, vbTerm:
		m.Body = rest
		return m, nil
	case vbRouteMon, vbStats, vbPeerDown, vbPeerUp, vbMirror:
	default:
		return nil, fmt.Errorf("unknown message type %d", m.Type)
	}
	if len(rest) < 42 {
		return nil, fmt.Errorf("type %d: per-peer header truncated (%d bytes)", m.Type, len(rest))
	}
	m.PeerType, m.Flags = rest[0], rest[1]
	m.Dist = binary.BigEndian.Uint64(rest[2:10])
	if m.Flags&0x80 != 0 {
		m.Addr = netip.AddrFrom16([16]byte(rest[10:26]))
	} else {
		for _, x := range rest[10:22] {
			if x != 0 {
				return nil, fmt.Errorf("IPv4 peer address not zero-padded")
			}
		}
		m.Addr = netip.AddrFrom4([4]byte(rest[22:26]))
	}
	m.AS = binary.BigEndian.Uint32(rest[26:30])
	m.ID = netip.AddrFrom4([4]byte(rest[30:34]))
	m.TS = binary.BigEndian.Uint32(rest[34:38])
	m.Body = rest[42:]
	return m, nil
}

type bmpTLV struct {
	Type uint16
	Val  []byte
}

func bmpTLVs(b []byte) ([]bmpTLV, error) {
	var out []bmpTLV
	for len(b) > 0 {
		if len(b) < 4 {
			return nil, fmt.Errorf("TLV header truncated")
		}
		t, l := binary.BigEndian.Uint16(b[0:2]), int(binary.BigEndian.Uint16(b[2:4]))
		if 4+l > len(b) {
			return nil, fmt.Errorf("TLV type %d length %d overruns the message", t, l)
		}
		out = append(out, bmpTLV{t, b[4 : 4+l]})
		b = b[4+l:]
	}
	return out, nil
}

// bgpPDU splits one BGP message off the front of b.
func bgpPDU(b []byte) (typ uint8, msg, rest []byte, err error) {
	if len(b) < 19 {
		return 0, nil, nil, fmt.Errorf("BGP PDU truncated (%d bytes)", len(b))
	}
	t, l, err := wParseHeader(b[:19])
	if err != nil {
		return 0, nil, nil, err
	}
	if l > len(b) {
		return 0, nil, nil, fmt.Errorf("BGP PDU length %d overruns the enclosing record (%d left)", l, len(b))
	}
	return t, b[:l], b[l:], nil
}

// ---------------------------------------------------------------- station model

type viewEnt struct {
	Attrs string
	Tag   uint32
}

type bmpPeerSt struct {
	key     string
	typ     uint8
	addr    string
	as      uint32
	id      string
	as4     bool
	addPath map[wFamily]bool
	pre     map[viewKey]viewEnt
	post    map[viewKey]viewEnt
	stats   map[uint16]uint64
	statsAt time.Duration
	// Loc-RIB instance: entries whose prefix was later announced under another path identifier
	// without this one being withdrawn (the former best paths of KF5)
	superseded map[viewKey]bool
}

type bmpConnSt struct {
	n      int
	conn   *simConn
	init   bool
	term   bool
	msgs   int
	peers  map[string]*bmpPeerSt
	closed bool
	fuzzy  bool // a framing problem was reported on this connection: its content is not compared
	at     time.Duration
}

type bmpStation struct {
	w          *simWorld
	idx        int
	addr       string
	mu         sync.Mutex
	cur        *bmpConnSt
	conns      int
	configured bool
	policy     string
	statsT     int
	stalled    bool
	cfgAt      time.Duration
}

type monState struct {
	stations []*bmpStation
	mrtDir   string
	mrtOn    bool
	mrtType  string // updates | table
	mrtRot   int
	mrtDump  int
	mrtAt    time.Duration // instant dumping was enabled
	mrtFiles []string      // pattern / file names used so far
	mrtSpans []mrtSpan     // intervals during which update dumping was on
	lastOp   atomic.Int64  // virtual instant of the last op that can change state
	polName  string
}

type mrtSpan struct {
	From, To time.Duration // To == 0: still on
	File     string
}

func (w *simWorld) mon() *monState { return w.fam.(*monState) }

func stationAddr(i int) string { return fmt.Sprintf("10.9.1.%d:11019", i+1) }

var monRunCounter atomic.Int64

func lettersOf(n int64) string {
	s := ""
	for {
		s = string(rune('a'+n%10)) + s
		n /= 10
		if n == 0 {
			return s
		}
	}
}

func monSetup(w *simWorld) error {
	st := &monState{}
	w.fam = st
	for i := 0; i < 2; i++ {
		s := &bmpStation{w: w, idx: i, addr: stationAddr(i)}
		st.stations = append(st.stations, s)
		ss := s
		w.net.listen(s.addr, &simListener{mode: "accept", handle: func(c *simConn) { ss.serve(c) }})
	}
	// letters only: the MRT writer runs the file name through time.Format when rotation is on
	st.mrtDir = filepath.Join("mrtscratch", "p"+lettersOf(int64(os.Getpid()))+"r"+lettersOf(monRunCounter.Add(1)))
	// (process ids come round again quickly with one process per run: a directory left behind by
	// an aborted run of an earlier process with this id must not be mistaken for this run's dumps)
	os.RemoveAll(st.mrtDir)
	if err := os.MkdirAll(st.mrtDir, 0o755); err != nil {
		return err
	}
	return nil
}

func (s *bmpStation) bad(c *bmpConnSt, clause, detail string) {
	s.w.violate("C19", clause, fmt.Sprintf("station%d", s.idx), detail)
	c.fuzzy = true
}

// serve reads one BMP connection from the daemon until it ends.
func (s *bmpStation) serve(conn *simConn) {
	s.mu.Lock()
	s.conns++
	c := &bmpConnSt{n: s.conns, conn: conn, peers: map[string]*bmpPeerSt{}, at: s.w.now()}
	s.cur = c
	if s.stalled {
		conn.r.setStalled(true)
	}
	s.mu.Unlock()
	s.w.logf("station%d: connection %d from gobgp", s.idx, c.n)
	s.w.probe("bmp_connect")
	defer func() {
		conn.Close()
		s.mu.Lock()
		c.closed = true
		s.mu.Unlock()
	}()
	for {
		h := make([]byte, 6)
		if _, err := io.ReadFull(conn, h); err != nil {
			s.w.logf("station%d: connection %d ended: %v", s.idx, c.n, err)
			return
		}
		l := int(binary.BigEndian.Uint32(h[1:5]))
		if h[0] != 3 || l < 6 || l > 1<<20 {
			s.mu.Lock()
			s.bad(c, "bmp-framing", fmt.Sprintf("common header version=%d length=%d type=%d", h[0], l, h[5]))
			s.mu.Unlock()
			return
		}
		b := make([]byte, l)
		copy(b, h)
		if _, err := io.ReadFull(conn, b[6:]); err != nil {
			s.w.logf("station%d: connection %d ended inside a message: %v", s.idx, c.n, err)
			return
		}
		m, err := bmpParse(b)
		s.mu.Lock()
		c.msgs++
		if err != nil {
			s.bad(c, "bmp-framing", err.Error())
			s.mu.Unlock()
			return
		}
		s.handle(c, m)
		s.mu.Unlock()
	}
}

func peerKeyOf(m *bmpMsg) string { return fmt.Sprintf("%d/%s", m.PeerType, m.Addr) }

// handle applies one message to the station's state (s.mu held).
func (s *bmpStation) handle(c *bmpConnSt, m *bmpMsg) {
	w := s.w
	if m.Type != vbInit && !c.init {
		s.bad(c, "bmp-order", fmt.Sprintf("message type %d before the Initiation message", m.Type))
	}
	if c.term {
		s.bad(c, "bmp-order", fmt.Sprintf("message type %d after the Termination message", m.Type))
	}
	switch m.Type {
	case vbInit:
		tl, err := bmpTLVs(m.Body)
		if err != nil {
			s.bad(c, "bmp-framing", "Initiation: "+err.Error())
			return
		}
		have := map[uint16]bool{}
		for _, t := range tl {
			have[t.Type] = true
		}
		if !have[1] || !have[2] {
			s.bad(c, "bmp-initiation", "Initiation lacks sysDescr or sysName")
		}
		c.init = true
		w.probe("bmp_initiation")
	case vbTerm:
		if _, err := bmpTLVs(m.Body); err != nil {
			s.bad(c, "bmp-framing", "Termination: "+err.Error())
		}
		c.term = true
		w.probe("bmp_termination")
	case vbPeerUp:
		s.peerUp(c, m)
	case vbPeerDown:
		k := peerKeyOf(m)
		ps := c.peers[k]
		if ps == nil {
			s.bad(c, "bmp-order", fmt.Sprintf("Peer Down for %s which is not up on this connection", k))
			return
		}
		if len(m.Body) < 1 {
			s.bad(c, "bmp-framing", "Peer Down without reason")
			return
		}
		reason, data := m.Body[0], m.Body[1:]
		switch reason {
		case 1, 3:
			t, _, rest, err := bgpPDU(data)
			if err != nil || t != wNotification || len(rest) != 0 {
				s.bad(c, "bmp-peer-down", fmt.Sprintf("%s: reason %d must carry exactly one NOTIFICATION PDU (%v, %d bytes)", k, reason, err, len(data)))
			}
		case 2:
			if len(data) != 2 {
				s.bad(c, "bmp-peer-down", fmt.Sprintf("%s: reason 2 must carry a 2-octet FSM event code, has %d bytes", k, len(data)))
			}
		case 4, 5:
			if len(data) != 0 {
				s.bad(c, "bmp-peer-down", fmt.Sprintf("%s: reason %d carries %d unexpected bytes", k, reason, len(data)))
			}
		case 6:
			if _, err := bmpTLVs(data); err != nil {
				s.bad(c, "bmp-framing", "Peer Down TLVs: "+err.Error())
			}
		default:
			s.bad(c, "bmp-peer-down", fmt.Sprintf("%s: unknown reason %d", k, reason))
		}
		delete(c.peers, k)
		w.probe(fmt.Sprintf("bmp_peer_down_reason%d", reason))
	case vbRouteMon:
		k := peerKeyOf(m)
		ps := c.peers[k]
		if ps == nil && m.PeerType == 0 && m.Addr.IsUnspecified() {
			// locally originated routes are reported under a pseudo-peer 0.0.0.0 that never gets a
			// Peer Up; RFC 7854 has no rule for it, the station keeps it apart
			ps = &bmpPeerSt{key: k, addr: "", as: m.AS, id: m.ID.String(), as4: true, addPath: map[wFamily]bool{}, pre: map[viewKey]viewEnt{}, post: map[viewKey]viewEnt{}}
			ps.typ = 9
			c.peers[k] = ps
			w.probe("bmp_local_pseudo_peer")
		}
		if ps == nil {
			s.bad(c, "bmp-order", fmt.Sprintf("Route Monitoring for %s without a preceding Peer Up on this connection", k))
			return
		}
		if ps.as != m.AS || ps.id != m.ID.String() {
			s.bad(c, "bmp-peer-header", fmt.Sprintf("Route Monitoring for %s carries AS %d id %s, its Peer Up said AS %d id %s", k, m.AS, m.ID, ps.as, ps.id))
		}
		t, msg, rest, err := bgpPDU(m.Body)
		if err != nil || t != wUpdate || len(rest) != 0 {
			s.bad(c, "bmp-route-monitoring", fmt.Sprintf("%s: body must be exactly one UPDATE PDU (%v, type %d, %d trailing bytes)", k, err, t, len(rest)))
			return
		}
		as2 := m.Flags&0x20 != 0
		if m.PeerType != 3 && !as2 && !ps.as4 {
			// RFC 7854 4.2: the A flag is set iff the message uses the legacy 2-octet AS_PATH format
			w.probe("bmp_as4_format_for_as2_peer")
		}
		o := &wOpts{AS2: as2, AddPath: ps.addPath}
		u, err := wParseUpdate(msg[19:], o)
		if err != nil {
			s.bad(c, "bmp-route-monitoring", fmt.Sprintf("%s post=%v: UPDATE does not parse under the capabilities of its Peer Up (add-path %v): %v", k, m.Flags&0x40 != 0, fmtFams(ps.addPath), err))
			return
		}
		view := ps.pre
		if m.Flags&0x40 != 0 && m.PeerType != 3 {
			view = ps.post
		}
		if m.PeerType == 3 {
			if ps.superseded == nil {
				ps.superseded = map[viewKey]bool{}
			}
			mark := func(f wFamily, n wNLRI) {
				for k := range view {
					if k.Fam == f && k.Key == n.Key && k.PathID != n.PathID {
						ps.superseded[k] = true
					}
				}
				delete(ps.superseded, viewKey{f, n.PathID, n.Key})
			}
			for _, n := range u.NLRI {
				mark(famV4, n)
			}
			for _, n := range u.Reach {
				mark(u.ReachFam, n)
			}
		}
		if err := applyToView(view, u, as2); err != nil {
			s.bad(c, "bmp-route-monitoring", fmt.Sprintf("%s: %v", k, err))
		}
		w.probe("bmp_route_monitoring")
	case vbStats:
		k := peerKeyOf(m)
		ps := c.peers[k]
		if ps == nil {
			// the report is built from the neighbour list at timer expiry and can overtake the
			// queued Peer Up event of a session that has just come up
			w.probe("bmp_statistics_before_peer_up")
			return
		}
		if len(m.Body) < 4 {
			s.bad(c, "bmp-framing", "Statistics Report without a counter count")
			return
		}
		n := int(binary.BigEndian.Uint32(m.Body[0:4]))
		tl, err := bmpTLVs(m.Body[4:])
		if err != nil || len(tl) != n {
			s.bad(c, "bmp-framing", fmt.Sprintf("Statistics Report: count %d, %d TLVs, %v", n, len(tl), err))
			return
		}
		ps.stats = map[uint16]uint64{}
		for _, t := range tl {
			switch len(t.Val) {
			case 4:
				ps.stats[t.Type] = uint64(binary.BigEndian.Uint32(t.Val))
			case 8:
				ps.stats[t.Type] = binary.BigEndian.Uint64(t.Val)
			default:
				s.bad(c, "bmp-framing", fmt.Sprintf("Statistics Report: counter %d of %d bytes", t.Type, len(t.Val)))
			}
		}
		ps.statsAt = w.now()
		w.probe("bmp_statistics")
	case vbMirror:
		s.bad(c, "bmp-order", "Route Mirroring message although mirroring is not configured")
	}
}

func fmtFams(m map[wFamily]bool) string {
	var l []string
	for f, on := range m {
		if on {
			l = append(l, f.String())
		}
	}
	sort.Strings(l)
	return "[" + strings.Join(l, " ") + "]"
}

func (s *bmpStation) peerUp(c *bmpConnSt, m *bmpMsg) {
	k := peerKeyOf(m)
	if c.peers[k] != nil {
		s.bad(c, "bmp-order", fmt.Sprintf("second Peer Up for %s without a Peer Down", k))
	}
	b := m.Body
	if len(b) < 20 {
		s.bad(c, "bmp-framing", "Peer Up truncated")
		return
	}
	t1, sent, rest, err := bgpPDU(b[20:])
	if err != nil || t1 != wOpen {
		s.bad(c, "bmp-peer-up", fmt.Sprintf("%s: sent OPEN: %v type %d", k, err, t1))
		return
	}
	t2, recv, rest, err := bgpPDU(rest)
	if err != nil || t2 != wOpen {
		s.bad(c, "bmp-peer-up", fmt.Sprintf("%s: received OPEN: %v type %d", k, err, t2))
		return
	}
	if _, err := bmpTLVs(rest); err != nil {
		s.bad(c, "bmp-framing", "Peer Up information TLVs: "+err.Error())
	}
	so, err1 := wParseBody(wOpen, sent[19:], nil)
	ro, err2 := wParseBody(wOpen, recv[19:], nil)
	if err1 != nil || err2 != nil {
		s.bad(c, "bmp-peer-up", fmt.Sprintf("%s: OPEN does not parse: %v %v", k, err1, err2))
		return
	}
	ps := &bmpPeerSt{key: k, typ: m.PeerType, addr: m.Addr.String(), as: m.AS, id: m.ID.String(), addPath: map[wFamily]bool{}, pre: map[viewKey]viewEnt{}, post: map[viewKey]viewEnt{}}
	_, a := capOf(so.Open, 65)
	_, bb := capOf(ro.Open, 65)
	ps.as4 = a && bb
	// path identifiers are present where the daemon announced RECEIVE and the neighbour SEND
	modes := func(o *wOpenMsg) map[wFamily]byte {
		out := map[wFamily]byte{}
		for _, cp := range o.Caps {
			if cp.Code != 69 {
				continue
			}
			v := cp.Val
			for len(v) >= 4 {
				out[wFamily{binary.BigEndian.Uint16(v[0:2]), v[2]}] = v[3]
				v = v[4:]
			}
		}
		return out
	}
	sm, rm := modes(so.Open), modes(ro.Open)
	for f, mode := range sm {
		if mode&1 != 0 && rm[f]&2 != 0 {
			ps.addPath[f] = true
		}
	}
	if m.PeerType == 3 {
		// RFC 9069: the fabricated OPEN describes the encoding of the Loc-RIB messages
		for f, mode := range sm {
			if mode&2 != 0 {
				ps.addPath[f] = true
			}
		}
		ps.as4 = true
	} else if p := s.w.peerByAddr(ps.addr); p != nil {
		p.mu.Lock()
		txo, rxo := p.txOpen, p.rxOpenRaw
		up := p.up
		p.mu.Unlock()
		if ps.as != p.cfg.AS || ps.id != p.cfg.RouterID {
			s.bad(c, "bmp-peer-up", fmt.Sprintf("%s: Peer Up says AS %d id %s, the neighbour is AS %d id %s", k, ps.as, ps.id, p.cfg.AS, p.cfg.RouterID))
		}
		if up {
			if string(recv) != string(txo) {
				s.bad(c, "bmp-peer-up", fmt.Sprintf("%s: received-OPEN in Peer Up differs from the OPEN the neighbour sent (%x vs %x)", k, recv, txo))
			}
			if string(sent) != string(rxo) {
				s.bad(c, "bmp-peer-up", fmt.Sprintf("%s: sent-OPEN in Peer Up differs from the OPEN the daemon sent (%x vs %x)", k, sent, rxo))
			}
		}
	} else {
		s.bad(c, "bmp-peer-up", fmt.Sprintf("Peer Up for unknown neighbour %s", k))
	}
	c.peers[k] = ps
	s.w.probe(fmt.Sprintf("bmp_peer_up_type%d", m.PeerType))
}

// applyToView applies an UPDATE to a monitored view.
func applyToView(view map[viewKey]viewEnt, u *wUpdateMsg, as2 bool) error {
	for _, n := range u.Withdrawn {
		delete(view, viewKey{famV4, n.PathID, n.Key})
	}
	if u.UnreachOk {
		for _, n := range u.Unreach {
			delete(view, viewKey{u.UnreachFam, n.PathID, n.Key})
		}
	}
	if len(u.NLRI) == 0 && len(u.Reach) == 0 {
		return nil
	}
	ra, err := wDecodeAttrs(u.Attrs, as2)
	if err != nil {
		return fmt.Errorf("attributes: %v", err)
	}
	tag := tagOf(ra.Comms)
	for _, n := range u.NLRI {
		view[viewKey{famV4, n.PathID, n.Key}] = viewEnt{ra.String(), tag}
	}
	for _, n := range u.Reach {
		a := ra.clone()
		a.NextHop = nhString(u.ReachNH, u.ReachFam)
		view[viewKey{u.ReachFam, n.PathID, n.Key}] = viewEnt{a.String(), tag}
	}
	return nil
}

// ---------------------------------------------------------------- MRT (RFC 6396, RFC 8050)

type mrtRec struct {
	TS   uint32
	Type uint16
	Sub  uint16
	Body []byte
}

func mrtSplit(b []byte) ([]mrtRec, error) {
	var out []mrtRec
	off := 0
	for off < len(b) {
		if len(b)-off < 12 {
			return out, fmt.Errorf("record header truncated at offset %d (%d bytes left)", off, len(b)-off)
		}
		l := int(binary.BigEndian.Uint32(b[off+8 : off+12]))
		if off+12+l > len(b) {
			return out, fmt.Errorf("record at offset %d: length %d overruns the file (%d left)", off, l, len(b)-off-12)
		}
		out = append(out, mrtRec{binary.BigEndian.Uint32(b[off : off+4]), binary.BigEndian.Uint16(b[off+4 : off+6]), binary.BigEndian.Uint16(b[off+6 : off+8]), b[off+12 : off+12+l]})
		off += 12 + l
	}
	return out, nil
}

type mrtBGP4MP struct {
	PeerAS, LocalAS uint32
	AFI             uint16
	PeerIP, LocalIP netip.Addr
	Msg             []byte
	AS4, AddPath    bool
}

func mrtParseBGP4MP(sub uint16, b []byte) (*mrtBGP4MP, error) {
	m := &mrtBGP4MP{}
	switch sub {
	case 1:
	case 4:
		m.AS4 = true
	case 8:
		m.AddPath = true
	case 9:
		m.AS4, m.AddPath = true, true
	default:
		return nil, fmt.Errorf("unexpected BGP4MP subtype %d", sub)
	}
	asl := 2
	if m.AS4 {
		asl = 4
	}
	if len(b) < 2*asl+4 {
		return nil, fmt.Errorf("BGP4MP header truncated")
	}
	if m.AS4 {
		m.PeerAS, m.LocalAS = binary.BigEndian.Uint32(b[0:4]), binary.BigEndian.Uint32(b[4:8])
	} else {
		m.PeerAS, m.LocalAS = uint32(binary.BigEndian.Uint16(b[0:2])), uint32(binary.BigEndian.Uint16(b[2:4]))
	}
	b = b[2*asl:]
	m.AFI = binary.BigEndian.Uint16(b[2:4])
	b = b[4:]
	al := 4
	switch m.AFI {
	case 1:
	case 2:
		al = 16
	default:
		return nil, fmt.Errorf("BGP4MP address family %d", m.AFI)
	}
	if len(b) < 2*al {
		return nil, fmt.Errorf("BGP4MP addresses truncated")
	}
	m.PeerIP, _ = netip.AddrFromSlice(b[:al])
	m.LocalIP, _ = netip.AddrFromSlice(b[al : 2*al])
	m.Msg = b[2*al:]
	return m, nil
}

type mrtPeerEntry struct {
	ID, Addr netip.Addr
	AS       uint32
}

func mrtParsePeerIndex(b []byte) (collector netip.Addr, peers []mrtPeerEntry, err error) {
	if len(b) < 8 {
		return collector, nil, fmt.Errorf("PEER_INDEX_TABLE truncated")
	}
	collector = netip.AddrFrom4([4]byte(b[0:4]))
	vl := int(binary.BigEndian.Uint16(b[4:6]))
	if 6+vl+2 > len(b) {
		return collector, nil, fmt.Errorf("PEER_INDEX_TABLE view name overruns")
	}
	b = b[6+vl:]
	n := int(binary.BigEndian.Uint16(b[0:2]))
	b = b[2:]
	for i := 0; i < n; i++ {
		if len(b) < 5 {
			return collector, nil, fmt.Errorf("PEER_INDEX_TABLE entry %d truncated", i)
		}
		t := b[0]
		e := mrtPeerEntry{ID: netip.AddrFrom4([4]byte(b[1:5]))}
		b = b[5:]
		al, asl := 4, 2
		if t&1 != 0 {
			al = 16
		}
		if t&2 != 0 {
			asl = 4
		}
		if len(b) < al+asl {
			return collector, nil, fmt.Errorf("PEER_INDEX_TABLE entry %d truncated", i)
		}
		e.Addr, _ = netip.AddrFromSlice(b[:al])
		if asl == 4 {
			e.AS = binary.BigEndian.Uint32(b[al:])
		} else {
			e.AS = uint32(binary.BigEndian.Uint16(b[al:]))
		}
		b = b[al+asl:]
		peers = append(peers, e)
	}
	if len(b) != 0 {
		return collector, nil, fmt.Errorf("PEER_INDEX_TABLE has %d trailing bytes", len(b))
	}
	return collector, peers, nil
}

type mrtRibEntry struct {
	Peer   uint16
	Orig   uint32
	PathID uint32
	Attrs  string
	Tag    uint32
}

type mrtRib struct {
	Seq     uint32
	Fam     wFamily
	AddPath bool
	Prefix  string
	Entries []mrtRibEntry
}

// mrtParseRib reads a TABLE_DUMP_V2 RIB record of the AFI/SAFI-specific subtypes.
func mrtParseRib(sub uint16, b []byte) (*mrtRib, error) {
	r := &mrtRib{}
	s := sub
	if s >= 8 && s <= 11 {
		r.AddPath = true
		s -= 6
	}
	switch s {
	case 2:
		r.Fam = famV4
	case 4:
		r.Fam = famV6
	default:
		return nil, fmt.Errorf("unexpected TABLE_DUMP_V2 subtype %d", sub)
	}
	if len(b) < 5 {
		return nil, fmt.Errorf("RIB record truncated")
	}
	r.Seq = binary.BigEndian.Uint32(b[0:4])
	bits := int(b[4])
	max := 32
	if r.Fam == famV6 {
		max = 128
	}
	if bits > max {
		return nil, fmt.Errorf("prefix length %d for %s", bits, r.Fam)
	}
	pl := (bits + 7) / 8
	if len(b) < 5+pl+2 {
		return nil, fmt.Errorf("RIB record prefix truncated")
	}
	r.Prefix = wPrefixString(b[5:5+pl], bits, r.Fam == famV6)
	b = b[5+pl:]
	n := int(binary.BigEndian.Uint16(b[0:2]))
	b = b[2:]
	for i := 0; i < n; i++ {
		hl := 8
		if r.AddPath {
			hl = 12
		}
		if len(b) < hl {
			return nil, fmt.Errorf("RIB entry %d header truncated", i)
		}
		e := mrtRibEntry{Peer: binary.BigEndian.Uint16(b[0:2]), Orig: binary.BigEndian.Uint32(b[2:6])}
		if r.AddPath {
			e.PathID = binary.BigEndian.Uint32(b[6:10])
		}
		al := int(binary.BigEndian.Uint16(b[hl-2 : hl]))
		if len(b) < hl+al {
			return nil, fmt.Errorf("RIB entry %d attributes overrun", i)
		}
		ab := b[hl : hl+al]
		b = b[hl+al:]
		var wa []wAttr
		nh := ""
		for len(ab) > 0 {
			if len(ab) < 3 {
				return nil, fmt.Errorf("RIB entry %d: attribute header truncated", i)
			}
			fl, ty := ab[0], ab[1]
			l, h := int(ab[2]), 3
			if fl&0x10 != 0 {
				if len(ab) < 4 {
					return nil, fmt.Errorf("RIB entry %d: attribute header truncated", i)
				}
				l, h = int(binary.BigEndian.Uint16(ab[2:4])), 4
			}
			if h+l > len(ab) {
				return nil, fmt.Errorf("RIB entry %d: attribute %d overruns", i, ty)
			}
			v := ab[h : h+l]
			ab = ab[h+l:]
			if ty == 14 {
				// RFC 6396 4.3.4: only next hop length and next hop; tolerate the full form
				if len(v) >= 1 && int(v[0]) == len(v)-1 {
					nh = nhString(v[1:], r.Fam)
				} else if len(v) >= 5 && 4+int(v[3]) <= len(v) {
					nh = nhString(v[4:4+int(v[3])], r.Fam)
				} else {
					return nil, fmt.Errorf("RIB entry %d: MP_REACH_NLRI of %d bytes in neither form", i, len(v))
				}
				continue
			}
			wa = append(wa, wAttr{Flags: fl, Type: ty, Val: v})
		}
		ra, err := wDecodeAttrs(wa, false)
		if err != nil {
			return nil, fmt.Errorf("RIB entry %d: %v", i, err)
		}
		if nh != "" {
			ra.NextHop = nh
		}
		e.Attrs, e.Tag = ra.String(), tagOf(ra.Comms)
		r.Entries = append(r.Entries, e)
	}
	if len(b) != 0 {
		return nil, fmt.Errorf("RIB record has %d trailing bytes", len(b))
	}
	return r, nil
}

// ---------------------------------------------------------------- generator

func genMon(seed uint64, tier, mode string) *Script {
	g := newGen(seed)
	sc := &Script{Family: "mon", Mode: mode, Seed: seed}
	sc.SchedSeed = g.u64() | 1
	sc.YieldN = pick(g, yieldChoices)
	sc.SelShuffle = g.p(70)
	sc.Global = GlobalCfg{AS: 65000, RouterID: "10.0.0.1"}
	if g.p(25) {
		sc.Global.AS = 4200000000 // 4-octet local AS
	}
	sc.Net.LatencyMs = pick(g, []int{0, 0, 5})
	v6 := g.p(50)
	fams := []string{"ipv4-unicast"}
	if v6 {
		fams = append(fams, "ipv6-unicast")
	}
	sc.Peers = []PeerCfg{
		{Idx: 0, Addr: peerAddr(0), RouterID: peerRID(0), Kind: "ebgp", AS: 65001, Families: fams},
		{Idx: 1, Addr: peerAddr(1), RouterID: peerRID(1), Kind: "ebgp", AS: pick(g, []uint32{65002, 70000, 4200000001}), Families: fams, AddPathRecv: mode != "noaddpath" && g.p(35)},
		{Idx: 2, Addr: peerAddr(2), RouterID: peerRID(2), Kind: pick(g, []string{"ibgp", "ebgp"}), AS: 65003, Families: []string{"ipv4-unicast"}, NoAS4: g.p(50)},
	}
	if g.p(40) {
		// a graceful-restart neighbour: its sessions end with the routes retained, and come back
		// with the same (or fewer) routes and End-of-RIB
		sc.Peers[0].GR = GRCfg{Enabled: true, RestartTime: 120, Families: fams}
	}
	if sc.Peers[2].Kind == "ibgp" {
		sc.Peers[2].AS = sc.Global.AS
		if sc.Global.AS > 65535 {
			sc.Peers[2].NoAS4 = false
		}
	}
	if g.p(40) {
		sc.Policies = []PolicyCfg{{Name: "rej", Prefixes: []string{"10.1.1.0/24"}, Action: "reject"}, {Name: "med", Prefixes: []string{"10.1.2.0/24"}, Action: "accept", SetMED: 777}}
	}
	pool := []string{"10.1.0.0/24", "10.1.1.0/24", "10.1.2.0/24", "10.1.3.0/24", "10.2.0.0/16"}
	pool6 := []string{"2001:db8:1::/48", "2001:db8:2::/48"}
	serial := 0
	asPool := []uint32{65010, 65020, 100, 70001, 4200000100}
	mkAttrs := func(c *PeerCfg, v6 bool) *AttrSpec {
		a := &AttrSpec{Origin: g.n(3), MED: -1, LocalPref: -1, NextHop: c.Addr}
		if v6 {
			a.NextHop = "2001:db8::" + fmt.Sprint(c.Idx+2)
		}
		var path []uint32
		if !isIBGPKind(c.Kind) {
			path = append(path, c.AS)
		} else {
			a.LocalPref = int64(pick(g, []int{100, 200}))
		}
		for i := g.n(3); i > 0; i-- {
			x := pick(g, asPool)
			if c.NoAS4 && x > 65535 {
				x = 65030
			}
			path = append(path, x)
		}
		if g.p(8) && !(c.NoAS4 && sc.Global.AS > 65535) {
			path = append(path, sc.Global.AS) // AS loop: stored in the Adj-RIB-In, not accepted
		}
		if len(path) > 0 {
			a.ASPath = []asSeg{{2, path}}
		}
		if g.p(40) {
			a.MED = int64(g.n(50))
		}
		if g.p(30) {
			a.Comms = []uint32{uint32(65000<<16 | g.n(5))}
		}
		return a
	}
	phases := g.rng(2, 4)
	if tier == "thorough" {
		phases = g.rng(3, 7)
	}
	policies := []string{"pre", "post", "local", "all", "pre"}
	for ph := 0; ph < phases; ph++ {
		var ops []Op
		if ph == 0 {
			// bring the neighbours up; maybe monitoring first
			if g.p(50) {
				ops = append(ops, Op{Kind: "addbmp", Actor: -1, N: 0, Arg: pick(g, policies), Count: pick(g, []int{0, 0, 5})})
			}
			if g.p(40) {
				ops = append(ops, Op{Kind: "enablemrt", Actor: -1, Arg: pick(g, []string{"updates", "updates", "table"}), N: pick(g, []int{0, 60}), Count: 60})
			}
			for i := range sc.Peers {
				ops = append(ops, Op{Kind: "up", Actor: i})
			}
		}
		// neighbour activity
		for i := range sc.Peers {
			c := &sc.Peers[i]
			n := g.rng(0, 6)
			for k := 0; k < n; k++ {
				r := g.n(100)
				d := g.rng(0, 400)
				switch {
				case r < 55:
					serial++
					fam, pfx := "ipv4-unicast", pick(g, pool)
					is6 := v6 && hasString(c.Families, "ipv6-unicast") && g.p(35)
					if is6 {
						fam, pfx = "ipv6-unicast", pick(g, pool6)
					}
					pid := uint32(0)
					if c.AddPathRecv {
						pid = uint32(g.rng(1, 2))
					}
					ann := Op{Kind: "ann", Actor: i, Delay: d, Family: fam, Prefix: pfx, PathID: pid, Attrs: mkAttrs(c, is6), Tag: mkTag(i, serial)}
					ops = append(ops, ann)
					if is6 && g.p(40) {
						// the same announcement again with nothing but the next hop changed (the next
						// hop of an MP family lives inside MP_REACH_NLRI, not among the other attributes)
						re := ann
						a2 := *ann.Attrs
						a2.NextHop = fmt.Sprintf("2001:db8::1:%x", c.Idx+2)
						re.Attrs, re.Delay = &a2, pick(g, []int{0, 50, 400, 2000})
						ops = append(ops, re)
					}
				case r < 75:
					fam, pfx := "ipv4-unicast", pick(g, pool)
					if v6 && hasString(c.Families, "ipv6-unicast") && g.p(35) {
						fam, pfx = "ipv6-unicast", pick(g, pool6)
					}
					pid := uint32(0)
					if c.AddPathRecv {
						pid = uint32(g.rng(1, 2))
					}
					ops = append(ops, Op{Kind: "wd", Actor: i, Delay: d, Family: fam, Prefix: pfx, PathID: pid})
				case r < 85 && c.GR.Enabled:
					ops = append(ops, Op{Kind: "grflap", Actor: i, Delay: d, Arg: pick(g, []string{"reset", "close"}), N: g.rng(0, 3000), Count: pick(g, []int{0, 0, 1, 2})})
				case r < 85:
					ops = append(ops, Op{Kind: "down", Actor: i, Delay: d, Arg: pick(g, []string{"reset", "close", "notify"})})
					ops = append(ops, Op{Kind: "up", Actor: i, Delay: g.rng(0, 3000)})
				case r < 90:
					ops = append(ops, Op{Kind: "eor", Actor: i, Delay: d, Family: "ipv4-unicast"})
				default:
					ops = append(ops, Op{Kind: "sleep", Actor: i, Delay: g.rng(100, 2000)})
				}
			}
		}
		// monitoring activity, concurrent with the neighbours
		nm := g.rng(0, 4)
		for k := 0; k < nm; k++ {
			r := g.n(100)
			d := g.rng(0, 1500)
			si := g.n(2)
			switch {
			case r < 25:
				ops = append(ops, Op{Kind: "addbmp", Actor: -1, Delay: d, N: si, Arg: pick(g, policies), Count: pick(g, []int{0, 0, 5})})
			case r < 35:
				ops = append(ops, Op{Kind: "delbmp", Actor: -1, Delay: d, N: si})
			case r < 50:
				ops = append(ops, Op{Kind: "bmpdrop", Actor: -1, Delay: d, N: si})
			case r < 58:
				ops = append(ops, Op{Kind: "bmplisten", Actor: -1, Delay: d, N: si, Arg: "refuse"})
				ops = append(ops, Op{Kind: "bmpdrop", Actor: -1, Delay: 50, N: si})
				ops = append(ops, Op{Kind: "bmplisten", Actor: -1, Delay: g.rng(500, 5000), N: si, Arg: "accept"})
			case r < 66 && mode != "nostall":
				ops = append(ops, Op{Kind: "bmpstall", Actor: -1, Delay: d, N: si, Arg: "on"})
				ops = append(ops, Op{Kind: "bmpstall", Actor: -1, Delay: g.rng(500, 4000), N: si, Arg: "off"})
			case r < 80:
				ops = append(ops, Op{Kind: "enablemrt", Actor: -1, Delay: d, Arg: pick(g, []string{"updates", "updates", "table"}), N: pick(g, []int{0, 60}), Count: 60})
			case r < 88:
				ops = append(ops, Op{Kind: "disablemrt", Actor: -1, Delay: d})
			case r < 94 && len(sc.Policies) > 0:
				ops = append(ops, Op{Kind: "setpolicy", Actor: -1, Delay: d, Arg: pick(g, []string{"rej", "med", ""})})
			case r < 97:
				// the operator removes a neighbour (established or not) and configures it again
				ops = append(ops, Op{Kind: "cyclepeer", Actor: -1, Delay: d, Peer: 2, N: g.rng(100, 2000)})
			default:
				ops = append(ops, Op{Kind: "apiadd", Actor: -1, Delay: d, Family: "ipv4-unicast", Prefix: pick(g, []string{"10.8.0.0/24", "10.1.0.0/24"}), Attrs: &AttrSpec{Origin: 0, MED: -1, LocalPref: -1, NextHop: "0.0.0.0"}, Tag: mkTag(-1, 1+serial)})
				serial++
			}
		}
		settle := 3
		if g.p(30) {
			settle = 65 // lets a table dump / a rotation / statistics happen in a quiescent state
		}
		// reconnect back-off of the BMP client can reach 30 s: give the last phase time
		if ph == phases-1 {
			ops = append(ops, Op{Kind: "bmplisten", Actor: -2, Delay: 4000, N: 0, Arg: "accept"}, Op{Kind: "bmplisten", Actor: -2, N: 1, Arg: "accept"}, Op{Kind: "bmpstall", Actor: -2, N: 0, Arg: "off"}, Op{Kind: "bmpstall", Actor: -2, N: 1, Arg: "off"})
			settle = pick(g, []int{35, 65})
		}
		sc.Phases = append(sc.Phases, Phase{Ops: ops, Settle: settle, Check: true})
	}
	sc.Final = pick(g, []string{"stop", "stopbgp", "stop"})
	return sc
}

// ---------------------------------------------------------------- ops

func (st *monState) touch(w *simWorld) { st.lastOp.Store(int64(w.now())) }

func monOp(w *simWorld, actor int, op *Op) {
	st := w.mon()
	ctx := context.Background()
	switch op.Kind {
	case "addbmp":
		s := st.stations[op.N]
		pol := map[string]api.AddBmpRequest_MonitoringPolicy{"pre": api.AddBmpRequest_MONITORING_POLICY_PRE, "post": api.AddBmpRequest_MONITORING_POLICY_POST,
			"both": api.AddBmpRequest_MONITORING_POLICY_BOTH, "local": api.AddBmpRequest_MONITORING_POLICY_LOCAL, "all": api.AddBmpRequest_MONITORING_POLICY_ALL}[op.Arg]
		host := strings.Split(s.addr, ":")[0]
		err := w.s.AddBmp(ctx, &api.AddBmpRequest{Address: host, Port: 11019, Policy: pol, StatisticsTimeout: int32(op.Count), SysName: "sim", SysDescr: "vsim"})
		w.logf("AddBmp station%d %s stats=%d: %v", op.N, op.Arg, op.Count, err)
		s.mu.Lock()
		if err == nil {
			if s.configured {
				w.violate("C19", "api", "AddBmp", "adding an already configured station succeeded")
			}
			s.configured, s.policy, s.statsT, s.cfgAt = true, op.Arg, op.Count, w.now()
		} else if !s.configured {
			w.violate("C19", "api", "AddBmp", err.Error())
		}
		s.mu.Unlock()
		st.touch(w)
		w.probe("add_bmp_" + op.Arg)
	case "delbmp":
		s := st.stations[op.N]
		host := strings.Split(s.addr, ":")[0]
		err := w.s.DeleteBmp(ctx, &api.DeleteBmpRequest{Address: host, Port: 11019})
		w.logf("DeleteBmp station%d: %v", op.N, err)
		s.mu.Lock()
		if s.configured {
			if err != nil {
				w.violate("C19", "api", "DeleteBmp", err.Error())
			} else {
				s.configured = false
				w.probe("delete_bmp")
			}
		}
		s.mu.Unlock()
		st.touch(w)
	case "bmpdrop":
		s := st.stations[op.N]
		s.mu.Lock()
		c := s.cur
		s.mu.Unlock()
		if c != nil && !c.conn.isClosed() {
			w.net.stats.fire("conn_reset")
			w.net.resetPair(c.conn)
			w.probe("bmp_conn_reset")
		}
		st.touch(w)
	case "bmplisten":
		w.net.setListenMode(st.stations[op.N].addr, op.Arg, 0)
		if op.Arg == "refuse" {
			w.probe("bmp_refuse")
		}
		st.touch(w)
	case "bmpstall":
		s := st.stations[op.N]
		s.mu.Lock()
		s.stalled = op.Arg == "on"
		c := s.cur
		s.mu.Unlock()
		if c != nil {
			c.conn.r.setStalled(op.Arg == "on")
		}
		if op.Arg == "on" {
			w.probe("bmp_stall")
		}
		st.touch(w)
	case "enablemrt":
		if st.mrtOn {
			return
		}
		name := "upd"
		dt := api.EnableMrtRequest_DUMP_TYPE_UPDATES
		if op.Arg == "table" {
			name, dt = "tbl", api.EnableMrtRequest_DUMP_TYPE_TABLE
		}
		rot := op.N
		file := filepath.Join(st.mrtDir, name+lettersOf(int64(len(st.mrtFiles)))+".mrt")
		if rot > 0 || op.Arg == "updates" {
			// update dumps always rotate (the writer enforces a minimum interval)
			file = filepath.Join(st.mrtDir, name+lettersOf(int64(len(st.mrtFiles)))+"-20060102-150405.mrt")
		}
		req := &api.EnableMrtRequest{DumpType: dt, Filename: file}
		if op.Arg == "table" {
			if rot > 0 {
				req.RotationInterval = uint64(rot)
			} else {
				req.DumpInterval = uint64(op.Count)
			}
		} else {
			req.RotationInterval = uint64(rot)
		}
		err := w.s.EnableMrt(ctx, req)
		w.logf("EnableMrt %s rot=%d dump=%d: %v", op.Arg, rot, op.Count, err)
		if err != nil {
			w.violate("C19", "api", "EnableMrt", err.Error())
			return
		}
		st.mrtOn, st.mrtType, st.mrtRot, st.mrtDump, st.mrtAt = true, op.Arg, rot, op.Count, w.now()
		st.mrtFiles = append(st.mrtFiles, file)
		if op.Arg == "updates" {
			st.mrtSpans = append(st.mrtSpans, mrtSpan{From: w.now(), File: name + lettersOf(int64(len(st.mrtFiles)-1))})
		}
		w.probe("enable_mrt_" + op.Arg)
	case "disablemrt":
		if !st.mrtOn {
			return
		}
		err := w.s.DisableMrt(ctx, &api.DisableMrtRequest{Filename: st.mrtFiles[len(st.mrtFiles)-1]})
		w.logf("DisableMrt: %v", err)
		if err != nil {
			// observation, not a property of the record contents: DisableMrt ignores the file name
			// in the request and looks up "" (see DESIGN.md); dumping stays on
			w.probe("disable_mrt_error")
			return
		}
		st.mrtOn = false
		if n := len(st.mrtSpans); n > 0 && st.mrtSpans[n-1].To == 0 {
			st.mrtSpans[n-1].To = w.now()
		}
		w.probe("disable_mrt")
	case "setpolicy":
		err := w.assignPolicy("import", op.Arg)
		w.logf("import policy %q: %v", op.Arg, err)
		if err == nil {
			st.polName = op.Arg
			// re-evaluate what was received under the previous assignment
			for _, p := range w.peers {
				_ = w.s.ResetPeer(ctx, &api.ResetPeerRequest{Address: p.cfg.Addr, Soft: true, Direction: api.ResetPeerRequest_DIRECTION_IN})
			}
		}
		st.touch(w)
	case "cyclepeer":
		p := w.peers[op.Peer]
		err := w.s.DeletePeer(ctx, &api.DeletePeerRequest{Address: p.cfg.Addr})
		w.logf("DeletePeer p%d: %v", op.Peer, err)
		if err != nil {
			return
		}
		w.probe("delete_peer")
		p.waitDown(5 * time.Second)
		time.Sleep(time.Duration(op.N) * time.Millisecond)
		err = w.addPeer(p.cfg)
		w.logf("AddPeer p%d: %v", op.Peer, err)
		if err == nil && !p.isUp() {
			if r := p.connectPassive(false, 12*time.Second); !r.ok {
				w.logf("p%d connect failed: %s", op.Peer, r.reason)
			}
		}
		st.touch(w)
	case "grflap":
		// a graceful-restart neighbour loses its session and comes back: it announces what it
		// had announced before (all but the first Count routes), then End-of-RIB
		p := w.peers[actor]
		if !p.cfg.GR.Enabled || !p.isUp() {
			return
		}
		defer st.touch(w)
		sent := p.snapshotSent()
		if !p.dropSession(op.Arg) {
			return
		}
		p.waitDown(5 * time.Second)
		time.Sleep(time.Duration(op.N) * time.Millisecond)
		if r := p.connectPassive(false, 12*time.Second); !r.ok {
			w.logf("p%d reconnect failed: %s", actor, r.reason)
			w.probe("connect_failed")
			return
		}
		var keys []viewKey
		for k := range sent {
			keys = append(keys, k)
		}
		sort.Slice(keys, func(i, j int) bool { return keys[i].String() < keys[j].String() })
		p.mu.Lock()
		p.sent = map[viewKey]*annRoute{}
		p.mu.Unlock()
		for i, k := range keys {
			if i < op.Count {
				continue // not announced again: removed with the stale routes at End-of-RIB
			}
			p.announce(sent[k])
		}
		for _, f := range p.families() {
			p.write(buildEOR(f))
		}
		w.probe("gr_flap_reannounced")
	default:
		worldOp(w, actor, op)
		st.touch(w)
	}
}

// ---------------------------------------------------------------- quiescent checks

func keyStr(k viewKey) string { return k.String() }

func (w *simWorld) monCompareView(clause, subj string, got map[viewKey]viewEnt, want map[viewKey]viewEnt, attrs bool) {
	var ks []string
	idx := map[string]viewKey{}
	for k := range got {
		ks = append(ks, keyStr(k))
		idx[keyStr(k)] = k
	}
	for k := range want {
		if _, ok := got[k]; !ok {
			ks = append(ks, keyStr(k))
			idx[keyStr(k)] = k
		}
	}
	sort.Strings(ks)
	for _, s := range ks {
		k := idx[s]
		g, gok := got[k]
		x, wok := want[k]
		switch {
		case !gok:
			w.violate("C19", clause+"-missing", subj, fmt.Sprintf("%s (tag %x) is in the daemon's table but the records emitted so far do not contain it", s, x.Tag))
		case !wok:
			w.violate("C19", clause+"-stale", subj, fmt.Sprintf("%s (tag %x) is in the emitted records but no longer (or never) in the daemon's table", s, g.Tag))
		case g.Tag != x.Tag:
			w.violate("C19", clause+"-wrong-route", subj, fmt.Sprintf("%s: emitted records say announcement %x, the daemon's table holds %x", s, g.Tag, x.Tag))
		case attrs && g.Attrs != x.Attrs:
			w.violate("C19", clause+"-attributes", subj, fmt.Sprintf("%s: emitted {%s} table {%s}", s, g.Attrs, x.Attrs))
		}
	}
}

func monCheck(w *simWorld, phase int) {
	st := w.mon()
	w.mu.Lock()
	w.checks++
	w.mu.Unlock()
	states := w.listPeers()
	est := map[string]*simPeer{}
	agree := true
	for _, p := range w.peers {
		ps := states[p.cfg.Addr]
		gobgpUp := ps != nil && ps.State == api.PeerState_SESSION_STATE_ESTABLISHED
		if p.isUp() != gobgpUp {
			agree = false
			w.probe("state_disagreement")
			continue
		}
		if gobgpUp {
			est[p.cfg.Addr] = p
		}
	}
	if !agree {
		return
	}
	// the daemon's tables
	type tbl = map[viewKey]viewEnt
	adjIn := map[string]tbl{}
	global := map[string]tbl{} // by source address ("" local)
	best := tbl{}
	fams := []wFamily{famV4, famV6}
	nonEmpty := false
	for _, f := range fams {
		gl, err := w.listPaths(api.TableType_TABLE_TYPE_GLOBAL, "", f, false)
		if err != nil {
			w.harnessError("ListPath global: %v", err)
			return
		}
		for pfx, l := range gl {
			for _, rp := range l {
				if global[rp.Src] == nil {
					global[rp.Src] = tbl{}
				}
				global[rp.Src][viewKey{f, rp.RemoteID, pfx}] = viewEnt{rp.Attrs.String(), rp.Tag}
				if rp.Best {
					best[viewKey{f, 0, pfx}] = viewEnt{rp.Attrs.String(), rp.Tag}
				}
				nonEmpty = true
			}
		}
		for addr, p := range est {
			if !p.hasFamily(f) {
				continue
			}
			al, err := w.listPaths(api.TableType_TABLE_TYPE_ADJ_IN, addr, f, true)
			if err != nil {
				w.harnessError("ListPath adj-in %s: %v", addr, err)
				return
			}
			if adjIn[addr] == nil {
				adjIn[addr] = tbl{}
			}
			for pfx, l := range al {
				for _, rp := range l {
					adjIn[addr][viewKey{f, rp.RemoteID, pfx}] = viewEnt{rp.Attrs.String(), rp.Tag}
				}
			}
		}
	}
	if nonEmpty {
		w.mu.Lock()
		w.nonEmpty++
		w.mu.Unlock()
	}
	var fp []string
	for _, s := range st.stations {
		s.mu.Lock()
		c := s.cur
		conf, stalled, pol, statsT := s.configured, s.stalled, s.policy, s.statsT
		s.mu.Unlock()
		subj := fmt.Sprintf("station%d", s.idx)
		if !conf {
			if c != nil && !c.closed && w.now()-time.Duration(st.lastOp.Load()) > 2*time.Second {
				w.violate("C19", "bmp-connection-after-delete", subj, "the station was removed but its connection is still open")
			}
			continue
		}
		if stalled {
			continue
		}
		if c == nil || c.closed {
			// The client never reads: it notices a dead connection only when it next writes, and
			// then reconnects with a back-off of up to 32 s.  Nothing to compare meanwhile.
			w.probe("bmp_station_disconnected_at_check")
			continue
		}
		s.mu.Lock()
		fuzzy, init := c.fuzzy, c.init
		peers := map[string]*bmpPeerSt{}
		for k, v := range c.peers {
			peers[k] = v
		}
		s.mu.Unlock()
		if fuzzy {
			continue
		}
		if !init {
			w.violate("C19", "bmp-initiation", subj, "connection is open and quiescent but no Initiation message was received")
			continue
		}
		w.probe("bmp_quiescent_compare_" + pol)
		// neighbours
		for addr, p := range est {
			if peers["0/"+addr] == nil {
				w.violate("C19", "bmp-peer-missing", subj, fmt.Sprintf("neighbour p%d (%s) is established but the station has no Peer Up for it", p.cfg.Idx, addr))
			}
		}
		for k, ps := range peers {
			if ps.typ != 0 {
				continue
			}
			if est[ps.addr] == nil {
				w.violate("C19", "bmp-peer-stale", subj, fmt.Sprintf("station holds %s as up but the neighbour is not established", k))
			}
		}
		wantPre := pol == "pre" || pol == "all" || pol == "both"
		wantPost := pol == "post" || pol == "all" || pol == "both"
		wantLoc := pol == "local" || pol == "all"
		for addr, p := range est {
			ps := peers["0/"+addr]
			if ps == nil {
				continue
			}
			psubj := fmt.Sprintf("%s p%d", subj, p.cfg.Idx)
			if wantPre {
				// the API shows Adj-RIB-In attributes after import policy: compare them only when no
				// policy can modify them
				w.monCompareView("bmp-pre-policy", psubj, ps.pre, adjIn[addr], len(w.sc.Policies) == 0)
			} else if len(ps.pre) > 0 {
				w.violate("C19", "bmp-unrequested-view", psubj, "pre-policy routes were reported although the monitoring policy does not include them")
			}
			if wantPost {
				w.monCompareView("bmp-post-policy", psubj, ps.post, global[addr], true)
			} else if len(ps.post) > 0 {
				w.violate("C19", "bmp-unrequested-view", psubj, "post-policy routes were reported although the monitoring policy does not include them")
			}
			// statistics: a report produced after the last change must carry the current counters
			if statsT > 0 && ps.stats != nil && ps.statsAt > time.Duration(st.lastOp.Load())+2*time.Second {
				if pst := states[addr]; pst != nil {
					if v, ok := ps.stats[7]; ok && v != pst.Received {
						w.violate("C19", "bmp-statistics", psubj, fmt.Sprintf("Adj-RIB-In counter %d in the last report, the daemon counts %d received routes", v, pst.Received))
					}
					if v, ok := ps.stats[8]; ok && v != pst.Accepted {
						w.violate("C19", "bmp-statistics", psubj, fmt.Sprintf("Loc-RIB counter %d in the last report, the daemon counts %d accepted routes", v, pst.Accepted))
					}
					w.probe("bmp_statistics_compared")
				}
			}
			for k := range ps.pre {
				fp = append(fp, fmt.Sprintf("s%d:pre:%d:%s", s.idx, p.cfg.Idx, k))
			}
			for k := range ps.post {
				fp = append(fp, fmt.Sprintf("s%d:post:%d:%s", s.idx, p.cfg.Idx, k))
			}
		}
		var loc *bmpPeerSt
		for _, ps := range peers {
			if ps.typ == 3 {
				loc = ps
			}
		}
		if wantLoc {
			if loc == nil {
				w.violate("C19", "bmp-loc-rib", subj, "local-rib monitoring is configured but no Loc-RIB Peer Up was received")
			} else {
				// one path per prefix: reduce the monitored view (ADD-PATH encoded) to prefixes
				got := map[viewKey]viewEnt{}
				dup := false
				s.mu.Lock()
				var ks []viewKey
				for k := range loc.pre {
					ks = append(ks, k)
				}
				sort.Slice(ks, func(i, j int) bool { return ks[i].String() < ks[j].String() })
				for _, k := range ks {
					if loc.superseded[k] {
						// a former best path: a newer announcement of the prefix came under another
						// identifier and this one was never withdrawn
						w.violate("C19", "bmp-loc-rib-former-best", subj, fmt.Sprintf("%s %s path-id %d was superseded by an announcement under another path identifier and never withdrawn (a station keeps both)", k.Fam, k.Key, k.PathID))
						continue
					}
					kk := viewKey{k.Fam, 0, k.Key}
					if _, ok := got[kk]; ok {
						dup = true
						w.violate("C19", "bmp-loc-rib-stale", subj, fmt.Sprintf("%s %s is reported under two path identifiers although the Loc-RIB has one best path per prefix", k.Fam, k.Key))
					}
					got[kk] = loc.pre[k]
				}
				s.mu.Unlock()
				if !dup {
					w.monCompareView("bmp-loc-rib", subj, got, best, true)
				}
			}
		} else if loc != nil {
			w.violate("C19", "bmp-unrequested-view", subj, "a Loc-RIB instance was reported although the monitoring policy does not include it")
		}
	}
	// MRT table dump taken in the quiescent interval
	w.monCheckTableDump(st, global)
	sort.Strings(fp)
	w.addStateFP(fp...)
}

func (st *monState) readFiles(prefix string) (names []string, data [][]byte) {
	ents, err := os.ReadDir(st.mrtDir)
	if err != nil {
		return nil, nil
	}
	for _, e := range ents {
		if strings.HasPrefix(e.Name(), prefix) {
			names = append(names, e.Name())
		}
	}
	sort.Strings(names)
	for _, n := range names {
		b, _ := os.ReadFile(filepath.Join(st.mrtDir, n))
		data = append(data, b)
	}
	return
}

// monCheckTableDump parses the newest table dump; if it was taken after the last change it must
// equal the daemon's global table.
func (w *simWorld) monCheckTableDump(st *monState, global map[string]map[viewKey]viewEnt) {
	if !st.mrtOn || st.mrtType != "table" {
		return
	}
	base := filepath.Base(st.mrtFiles[len(st.mrtFiles)-1])
	pfx := strings.SplitN(strings.TrimSuffix(base, ".mrt"), "-", 2)[0]
	names, data := st.readFiles(pfx)
	var recs []mrtRec
	for i, b := range data {
		r, err := mrtSplit(b)
		if err != nil {
			w.violate("C19", "mrt-framing", names[i], err.Error())
			return
		}
		recs = append(recs, r...)
	}
	// find the last PEER_INDEX_TABLE
	last := -1
	for i, r := range recs {
		if r.Type == 13 && r.Sub == 1 {
			last = i
		}
	}
	if last < 0 {
		return
	}
	ts := time.Duration(recs[last].TS-uint32(w.start.Unix())) * time.Second
	lastOp := time.Duration(st.lastOp.Load())
	quiet := ts > lastOp+2*time.Second
	w.monCheckDump(recs[last:], global, quiet)
}

func (w *simWorld) monCheckDump(recs []mrtRec, global map[string]map[viewKey]viewEnt, compare bool) {
	subj := "table dump"
	if recs[0].Type != 13 || recs[0].Sub != 1 {
		w.violate("C19", "mrt-table-dump", subj, "dump does not start with a PEER_INDEX_TABLE")
		return
	}
	coll, peers, err := mrtParsePeerIndex(recs[0].Body)
	if err != nil {
		w.violate("C19", "mrt-framing", subj, err.Error())
		return
	}
	if coll.String() != w.sc.Global.RouterID {
		w.violate("C19", "mrt-peer-index", subj, fmt.Sprintf("collector BGP ID %s, the router id is %s", coll, w.sc.Global.RouterID))
	}
	for i, e := range peers {
		if e.Addr.IsUnspecified() {
			continue // locally originated routes
		}
		p := w.peerByAddr(e.Addr.String())
		if p == nil {
			w.violate("C19", "mrt-peer-index", subj, fmt.Sprintf("entry %d: unknown peer %s", i, e.Addr))
			continue
		}
		if e.AS != p.cfg.AS || e.ID.String() != p.cfg.RouterID {
			w.violate("C19", "mrt-peer-index", subj, fmt.Sprintf("entry %d for neighbour %s says AS %d BGP ID %s; the neighbour is AS %d BGP ID %s", i, e.Addr, e.AS, e.ID, p.cfg.AS, p.cfg.RouterID))
		}
	}
	got := map[string]map[viewKey]viewEnt{}
	for i, r := range recs[1:] {
		if r.Type != 13 {
			w.violate("C19", "mrt-table-dump", subj, fmt.Sprintf("record type %d inside a table dump", r.Type))
			return
		}
		rib, err := mrtParseRib(r.Sub, r.Body)
		if err != nil {
			w.violate("C19", "mrt-rib-record", subj, fmt.Sprintf("record %d (subtype %d) does not parse as RFC 6396/8050 RIB record: %v", i, r.Sub, err))
			return
		}
		if int(rib.Seq) != i {
			w.violate("C19", "mrt-table-dump", subj, fmt.Sprintf("record %d has sequence number %d", i, rib.Seq))
		}
		for _, e := range rib.Entries {
			if int(e.Peer) >= len(peers) {
				w.violate("C19", "mrt-rib-record", subj, fmt.Sprintf("%s: peer index %d outside the PEER_INDEX_TABLE (%d entries)", rib.Prefix, e.Peer, len(peers)))
				continue
			}
			src := peers[e.Peer].Addr.String()
			if peers[e.Peer].Addr.IsUnspecified() {
				src = ""
			}
			if got[src] == nil {
				got[src] = map[viewKey]viewEnt{}
			}
			pid := uint32(0)
			if rib.AddPath {
				pid = e.PathID
			}
			got[src][viewKey{rib.Fam, pid, rib.Prefix}] = viewEnt{e.Attrs, e.Tag}
		}
	}
	w.probe("mrt_table_dump_parsed")
	if !compare {
		return
	}
	w.probe("mrt_table_dump_compared")
	srcs := map[string]bool{}
	for s := range got {
		srcs[s] = true
	}
	for s := range global {
		srcs[s] = true
	}
	for _, s := range sortedKeys(srcs) {
		want := map[viewKey]viewEnt{}
		for k, v := range global[s] {
			// locally originated routes are dumped in the ADD-PATH form with their identifier
			want[k] = v
		}
		g := got[s]
		if s == "" {
			// local routes: compare by prefix only (the dump carries the local path identifier)
			g2, w2 := map[viewKey]viewEnt{}, map[viewKey]viewEnt{}
			for k, v := range g {
				g2[viewKey{k.Fam, 0, k.Key}] = v
			}
			for k, v := range want {
				w2[viewKey{k.Fam, 0, k.Key}] = v
			}
			g, want = g2, w2
		}
		name := s
		if name == "" {
			name = "local"
		}
		w.monCompareView("mrt-table", "table dump src="+name, g, want, true)
	}
}

// monFinal runs after the daemon stopped: every dump file must be framed exactly, and the update
// dumps must reproduce what the neighbours sent, in order.
func monFinal(w *simWorld) {
	st := w.mon()
	if os.Getenv("VSIM_KEEP_MRT") == "" {
		defer os.RemoveAll(st.mrtDir)
	} else {
		w.logf("keeping MRT files in %s", st.mrtDir)
	}
	ents, _ := os.ReadDir(st.mrtDir)
	var names []string
	for _, e := range ents {
		names = append(names, e.Name())
	}
	sort.Strings(names)
	type rec struct {
		m  *mrtBGP4MP
		ts uint32
	}
	byPeer := map[string][]rec{}
	for _, n := range names {
		b, err := os.ReadFile(filepath.Join(st.mrtDir, n))
		if err != nil {
			continue
		}
		recs, err := mrtSplit(b)
		if err != nil {
			w.violate("C19", "mrt-framing", n, err.Error())
			return
		}
		if strings.HasPrefix(n, "tbl") {
			// every dump in the file must parse; content was compared at quiescent points
			start := -1
			for i, r := range recs {
				if r.Type == 13 && r.Sub == 1 {
					if start >= 0 {
						w.monCheckDump(recs[start:i], nil, false)
					}
					start = i
				}
			}
			if start >= 0 {
				w.monCheckDump(recs[start:], nil, false)
			} else if len(recs) > 0 {
				w.violate("C19", "mrt-table-dump", n, "file has records but no PEER_INDEX_TABLE")
			}
			continue
		}
		for i, r := range recs {
			if r.Type != 16 {
				w.violate("C19", "mrt-update-dump", n, fmt.Sprintf("record %d has type %d, expected BGP4MP", i, r.Type))
				continue
			}
			m, err := mrtParseBGP4MP(r.Sub, r.Body)
			if err != nil {
				w.violate("C19", "mrt-update-dump", n, fmt.Sprintf("record %d: %v", i, err))
				continue
			}
			byPeer[m.PeerIP.String()] = append(byPeer[m.PeerIP.String()], rec{m, r.TS})
		}
	}
	if len(st.mrtSpans) == 0 {
		return
	}
	w.probe("mrt_update_dump_checked")
	end := w.now()
	for _, p := range w.peers {
		subj := fmt.Sprintf("update dump p%d", p.cfg.Idx)
		p.mu.Lock()
		log := append([]sentRec(nil), p.sentLog...)
		sessEnd := map[int]time.Duration{}
		for k, v := range p.sessEnd {
			sessEnd[k] = v
		}
		p.mu.Unlock()
		recs := byPeer[p.cfg.Addr]
		// header fields
		for _, r := range recs {
			if r.m.PeerAS != p.cfg.AS && !(p.cfg.AS > 65535 && !r.m.AS4 && r.m.PeerAS == 23456) {
				w.violate("C19", "mrt-update-header", subj, fmt.Sprintf("record says peer AS %d, the neighbour is AS %d", r.m.PeerAS, p.cfg.AS))
				break
			}
			if r.m.LocalAS != w.sc.Global.AS && !(w.sc.Global.AS > 65535 && !r.m.AS4 && r.m.LocalAS == 23456) {
				w.violate("C19", "mrt-update-header", subj, fmt.Sprintf("record says local AS %d, the router is AS %d", r.m.LocalAS, w.sc.Global.AS))
				break
			}
			if r.m.AS4 == p.cfg.NoAS4 {
				w.violate("C19", "mrt-update-header", subj, fmt.Sprintf("record subtype AS4=%v but the session negotiated 4-octet AS = %v", r.m.AS4, !p.cfg.NoAS4))
				break
			}
			t, _, rest, err := bgpPDU(r.m.Msg)
			if err != nil || t != wUpdate || len(rest) != 0 {
				w.violate("C19", "mrt-update-dump", subj, fmt.Sprintf("record does not hold exactly one UPDATE: %v type %d trailing %d", err, t, len(rest)))
				break
			}
		}
		// order: the records are a subsequence of what the neighbour sent while dumping was on
		// (one second of slack at the borders of each span)
		lat := time.Duration(w.sc.Net.LatencyMs) * time.Millisecond
		inSpan := func(at time.Duration, slack time.Duration) bool {
			arr := at + lat
			for _, sp := range st.mrtSpans {
				to := sp.To
				if to == 0 {
					to = end
				}
				if arr > sp.From-slack && arr < to+slack {
					return true
				}
			}
			return false
		}
		j := 0
		for i, r := range recs {
			found := false
			for j < len(log) {
				if inSpan(log[j].At, time.Second) && string(log[j].Raw) == string(r.m.Msg) {
					found = true
					j++
					break
				}
				j++
			}
			if !found {
				w.violate("C19", "mrt-update-order", subj, fmt.Sprintf("record %d (%d bytes, ts %d) is not an UPDATE the neighbour sent after the previous record's", i, len(r.m.Msg), r.ts))
				break
			}
		}
		// completeness: an UPDATE carrying routes that reached the daemon while dumping was on must be recorded
		// an UPDATE is effective if it announces something or withdraws a route the session holds
		present := map[viewKey]bool{}
		curSess := -1
		effective := make([]bool, len(log))
		popts := &wOpts{AS2: p.cfg.NoAS4, AddPath: map[wFamily]bool{famV4: p.cfg.AddPathRecv, famV6: p.cfg.AddPathRecv}}
		for i, s := range log {
			if s.Sess != curSess {
				present, curSess = map[viewKey]bool{}, s.Sess
			}
			u, err := wParseUpdate(s.Raw[19:], popts)
			if err != nil {
				continue
			}
			for _, n := range u.Withdrawn {
				k := viewKey{famV4, n.PathID, n.Key}
				effective[i] = effective[i] || present[k]
				delete(present, k)
			}
			for _, n := range u.Unreach {
				k := viewKey{u.UnreachFam, n.PathID, n.Key}
				effective[i] = effective[i] || present[k]
				delete(present, k)
			}
			for _, n := range u.NLRI {
				present[viewKey{famV4, n.PathID, n.Key}] = true
				effective[i] = true
			}
			for _, n := range u.Reach {
				present[viewKey{u.ReachFam, n.PathID, n.Key}] = true
				effective[i] = true
			}
		}
		ri := 0
		for i, s := range log {
			if !effective[i] || !inSpan(s.At, -time.Second) {
				continue
			}
			if e, ok := sessEnd[s.Sess]; ok && e < s.At+lat+2*time.Second {
				continue // the session ended around the arrival: the daemon may not have processed it
			}
			found := false
			for ri < len(recs) {
				if string(recs[ri].m.Msg) == string(s.Raw) {
					found = true
					ri++
					break
				}
				ri++
			}
			if found {
				continue
			}
			w.violate("C19", "mrt-update-missing", subj, fmt.Sprintf("UPDATE sent at %v (session %d, %d bytes) while update dumping was on is in no dump file", s.At, s.Sess, len(s.Raw)))
			break
		}
	}
}
