package server

// In-memory network for the simulator.  Everything here runs inside the synctest bubble:
// blocking is on channels/timers created in the bubble (durable), mutexes are only held briefly.

import (
	"context"
	"errors"
	"fmt"
	"io"
	"net"
	"os"
	"strings"
	"sync"
	"syscall"
	"time"
)

var errSimReset = &net.OpError{Op: "read", Net: "tcp", Err: syscall.ECONNRESET}
var errSimPipe = &net.OpError{Op: "write", Net: "tcp", Err: syscall.EPIPE}

type simTimeoutErr struct{}

func (simTimeoutErr) Error() string   { return "i/o timeout" }
func (simTimeoutErr) Timeout() bool   { return true }
func (simTimeoutErr) Temporary() bool { return true }
func (simTimeoutErr) Unwrap() error   { return os.ErrDeadlineExceeded }
func (simTimeoutErr) Is(e error) bool { return e == os.ErrDeadlineExceeded }

// simHalf is one direction of a connection: bytes written by one end, read by the other.
type simHalf struct {
	mu      sync.Mutex
	buf     []byte
	pending [][]byte // written but not yet delivered (latency/fragmentation)
	eof     bool     // writer closed gracefully; EOF once drained
	reset   bool     // connection reset: reads and writes fail at once
	wake    chan struct{}

	// fault plan for this direction
	latency   time.Duration // per-chunk delivery delay
	fragment  int           // >0: deliver in pieces of at most this many bytes
	fragDelay time.Duration
	blackhole bool // silently discard written bytes
	stalled   bool // writer blocks
	stallCh   chan struct{}
	cutAt     int64 // >0: reset the connection when the total written reaches this offset
	total     int64 // bytes written so far
	lastAt    time.Time
	onCut     func()
	stats     *netStats
}

type netStats struct {
	mu     sync.Mutex
	faults map[string]int
}

func (n *netStats) fire(kind string) {
	if n == nil {
		return
	}
	n.mu.Lock()
	if n.faults == nil {
		n.faults = map[string]int{}
	}
	n.faults[kind]++
	n.mu.Unlock()
}

func newSimHalf(st *netStats) *simHalf {
	return &simHalf{wake: make(chan struct{}, 1), stallCh: make(chan struct{}), stats: st}
}

func (h *simHalf) signal() {
	select {
	case h.wake <- struct{}{}:
	default:
	}
}

// simConn is one end of a simulated TCP connection.
type simConn struct {
	r, w   *simHalf
	la, ra *net.TCPAddr
	name   string

	dmu     sync.Mutex
	rdead   time.Time
	wdead   time.Time
	rdeadCh chan struct{}
	closed  bool
	peer    *simConn
	net     *simNet
	server  bool // the end handed to gobgp
}

func (c *simConn) Read(p []byte) (int, error) {
	for {
		c.dmu.Lock()
		dl := c.rdead
		closed := c.closed
		c.dmu.Unlock()
		if closed {
			return 0, net.ErrClosed
		}
		if !dl.IsZero() && !time.Now().Before(dl) {
			return 0, simTimeoutErr{}
		}
		h := c.r
		h.mu.Lock()
		if h.reset {
			h.mu.Unlock()
			return 0, errSimReset
		}
		if len(h.buf) > 0 {
			n := copy(p, h.buf)
			h.buf = h.buf[n:]
			if len(h.buf) == 0 {
				h.buf = nil
			}
			h.mu.Unlock()
			return n, nil
		}
		if h.eof && len(h.pending) == 0 {
			h.mu.Unlock()
			return 0, io.EOF
		}
		h.mu.Unlock()
		var tc <-chan time.Time
		var t *time.Timer
		if !dl.IsZero() {
			t = time.NewTimer(time.Until(dl))
			tc = t.C
		}
		select {
		case <-h.wake:
		case <-c.rdeadCh:
		case <-tc:
		}
		if t != nil {
			t.Stop()
		}
	}
}

func (c *simConn) Write(p []byte) (int, error) {
	h := c.w
	for {
		c.dmu.Lock()
		closed := c.closed
		dl := c.wdead
		c.dmu.Unlock()
		if closed {
			return 0, net.ErrClosed
		}
		h.mu.Lock()
		if h.reset || h.eof {
			h.mu.Unlock()
			return 0, errSimPipe
		}
		if !h.stalled {
			break
		}
		ch := h.stallCh
		h.mu.Unlock()
		var tc <-chan time.Time
		var t *time.Timer
		if !dl.IsZero() {
			if !time.Now().Before(dl) {
				h.stats.fire("stall_write_timeout")
				return 0, simTimeoutErr{}
			}
			t = time.NewTimer(time.Until(dl))
			tc = t.C
		}
		select {
		case <-ch:
		case <-tc:
		}
		if t != nil {
			t.Stop()
		}
	}
	// h.mu held
	data := append([]byte(nil), p...)
	if h.cutAt > 0 && h.total+int64(len(data)) >= h.cutAt {
		keep := h.cutAt - h.total
		if keep < 0 {
			keep = 0
		}
		data = data[:keep]
		h.total += int64(len(data))
		h.deliverLocked(data)
		h.cutAt = 0
		cb := h.onCut
		h.mu.Unlock()
		h.stats.fire("conn_reset")
		c.net.resetPair(c)
		if cb != nil {
			cb()
		}
		return int(keep), errSimPipe
	}
	h.total += int64(len(data))
	if h.blackhole {
		h.mu.Unlock()
		return len(p), nil
	}
	h.deliverLocked(data)
	h.mu.Unlock()
	return len(p), nil
}

// deliverLocked hands data to the reader, now or later.  Order is preserved: delayed chunks go
// through a FIFO and every timer callback delivers the head, whichever callback fires first.
func (h *simHalf) deliverLocked(data []byte) {
	if len(data) == 0 {
		return
	}
	if h.latency == 0 && h.fragment == 0 && len(h.pending) == 0 {
		h.buf = append(h.buf, data...)
		h.signal()
		return
	}
	now := time.Now()
	at := now.Add(h.latency)
	if at.Before(h.lastAt) {
		at = h.lastAt
	}
	pieces := [][]byte{data}
	if h.fragment > 0 && len(data) > h.fragment {
		pieces = nil
		for len(data) > 0 {
			n := h.fragment
			if n > len(data) {
				n = len(data)
			}
			pieces = append(pieces, data[:n])
			data = data[n:]
		}
		h.stats.fire("fragment")
	}
	for i, pc := range pieces {
		if i > 0 {
			at = at.Add(h.fragDelay)
		}
		h.pending = append(h.pending, pc)
		d := at.Sub(now)
		if d < 0 {
			d = 0
		}
		time.AfterFunc(d, h.deliverHead)
	}
	h.lastAt = at
	if h.latency > 0 {
		h.stats.fire("delay")
	}
}

func (h *simHalf) deliverHead() {
	h.mu.Lock()
	if len(h.pending) > 0 && !h.reset {
		h.buf = append(h.buf, h.pending[0]...)
		h.pending = h.pending[1:]
	}
	h.mu.Unlock()
	h.signal()
}

func (c *simConn) Close() error {
	c.dmu.Lock()
	if c.closed {
		c.dmu.Unlock()
		return nil
	}
	c.closed = true
	c.dmu.Unlock()
	// our writes end gracefully (FIN); our reads are abandoned: the peer's later writes fail.
	c.w.mu.Lock()
	c.w.eof = true
	st := c.w.stallCh
	c.w.stalled = false
	c.w.stallCh = make(chan struct{})
	c.w.mu.Unlock()
	close(st)
	c.w.signal()
	c.r.mu.Lock()
	c.r.reset = true
	c.r.buf = nil
	c.r.pending = nil
	st2 := c.r.stallCh
	c.r.stalled = false
	c.r.stallCh = make(chan struct{})
	c.r.mu.Unlock()
	close(st2)
	c.r.signal()
	select {
	case c.rdeadCh <- struct{}{}:
	default:
	}
	if c.net != nil {
		c.net.noteClosed(c)
	}
	return nil
}

func (c *simConn) isClosed() bool {
	c.dmu.Lock()
	defer c.dmu.Unlock()
	return c.closed
}

// isDead: closed here, reset, or ended by the other side with nothing left to read.
func (c *simConn) isDead() bool {
	if c.isClosed() {
		return true
	}
	h := c.r
	h.mu.Lock()
	defer h.mu.Unlock()
	return h.reset || (h.eof && len(h.buf) == 0 && len(h.pending) == 0)
}

func (c *simConn) LocalAddr() net.Addr  { return c.la }
func (c *simConn) RemoteAddr() net.Addr { return c.ra }
func (c *simConn) SetDeadline(t time.Time) error {
	c.SetReadDeadline(t)
	c.SetWriteDeadline(t)
	return nil
}

func (c *simConn) SetReadDeadline(t time.Time) error {
	c.dmu.Lock()
	c.rdead = t
	c.dmu.Unlock()
	select {
	case c.rdeadCh <- struct{}{}:
	default:
	}
	return nil
}

func (c *simConn) SetWriteDeadline(t time.Time) error {
	c.dmu.Lock()
	c.wdead = t
	c.dmu.Unlock()
	return nil
}

// ---- fault controls (called by the harness)

// stallWrites makes writes INTO half h block until released.
func (h *simHalf) setStalled(on bool) {
	h.mu.Lock()
	if on && !h.stalled {
		h.stalled = true
		h.stats.fire("stall_write")
	} else if !on && h.stalled {
		h.stalled = false
		close(h.stallCh)
		h.stallCh = make(chan struct{})
	}
	h.mu.Unlock()
}

// setBroken makes writes INTO half h fail (EPIPE) while the other direction stays as it is: a
// peer that has shut down its receiving side.
func (h *simHalf) setBroken() {
	h.mu.Lock()
	if !h.eof {
		h.eof = true
		h.stats.fire("half_close")
	}
	h.mu.Unlock()
	h.signal()
}

func (h *simHalf) setBlackhole(on bool) {
	h.mu.Lock()
	if on && !h.blackhole {
		h.stats.fire("half_open")
	}
	h.blackhole = on
	h.mu.Unlock()
}

// simNet owns all connections of a run.
type simNet struct {
	mu            sync.Mutex
	stats         netStats
	conns         []*simConn // server-side ends handed to gobgp
	listeners     map[string]*simListener
	nextPort      int
	serverIP      net.IP
	udps          []*simUDP // datagram sockets handed to gobgp
	udpListenHook func(u *simUDP)
	udpDialHook   func(u *simUDP)
}

type simListener struct {
	addr   string
	mode   string // "accept", "refuse", "timeout"
	delay  time.Duration
	handle func(c *simConn) // runs in its own goroutine with the remote end
	dials  int
}

func newSimNet() *simNet {
	return &simNet{listeners: map[string]*simListener{}, nextPort: 40000, serverIP: net.IPv4(10, 0, 0, 1).To4()}
}

// pair creates a connection; a is the end for gobgp (server=true), b the remote end.
func (n *simNet) pair(local, remote *net.TCPAddr) (*simConn, *simConn) {
	x, y := newSimHalf(&n.stats), newSimHalf(&n.stats)
	a := &simConn{r: x, w: y, la: local, ra: remote, rdeadCh: make(chan struct{}, 1), net: n, server: true}
	b := &simConn{r: y, w: x, la: remote, ra: local, rdeadCh: make(chan struct{}, 1), net: n}
	a.peer, b.peer = b, a
	n.mu.Lock()
	n.conns = append(n.conns, a)
	n.mu.Unlock()
	return a, b
}

func (n *simNet) port() int {
	n.mu.Lock()
	defer n.mu.Unlock()
	n.nextPort++
	return n.nextPort
}

// resetPair aborts both directions (RST).
func (n *simNet) resetPair(c *simConn) {
	for _, h := range []*simHalf{c.r, c.w} {
		h.mu.Lock()
		h.reset = true
		h.buf = nil
		h.pending = nil
		st := h.stallCh
		h.stalled = false
		h.stallCh = make(chan struct{})
		h.mu.Unlock()
		close(st)
		h.signal()
	}
}

func (n *simNet) noteClosed(c *simConn) {}

// pendingBytes reports whether any connection still has bytes in flight (latency/fragments).
func (n *simNet) pendingBytes() bool {
	n.mu.Lock()
	conns := append([]*simConn(nil), n.conns...)
	n.mu.Unlock()
	for _, c := range conns {
		for _, h := range []*simHalf{c.r, c.w} {
			h.mu.Lock()
			p := len(h.pending) > 0 && !h.reset
			h.mu.Unlock()
			if p {
				return true
			}
		}
	}
	return false
}

// drain lets virtual time pass until nothing is in flight any more (bounded).
func (n *simNet) drain() {
	for i := 0; i < 2000 && n.pendingBytes(); i++ {
		time.Sleep(10 * time.Millisecond)
	}
}

// openServerConns returns the gobgp-side ends that gobgp has not closed.
func (n *simNet) openServerConns() []*simConn {
	n.mu.Lock()
	defer n.mu.Unlock()
	var l []*simConn
	for _, c := range n.conns {
		if !c.isClosed() {
			l = append(l, c)
		}
	}
	return l
}

func (n *simNet) listen(addr string, l *simListener) {
	n.mu.Lock()
	l.addr = addr
	n.listeners[addr] = l
	n.mu.Unlock()
}

func (n *simNet) unlisten(addr string) {
	n.mu.Lock()
	delete(n.listeners, addr)
	n.mu.Unlock()
}

func (n *simNet) setListenMode(addr, mode string, delay time.Duration) {
	n.mu.Lock()
	if l := n.listeners[addr]; l != nil {
		l.mode = mode
		l.delay = delay
	}
	n.mu.Unlock()
}

// dial serves net.SimDialHook.
func (n *simNet) dial(ctx context.Context, network, address string, laddr net.Addr) (net.Conn, error) {
	if strings.HasPrefix(network, "udp") {
		return n.dialUDP(network, address, laddr)
	}
	n.mu.Lock()
	l := n.listeners[address]
	var mode string
	var delay time.Duration
	if l != nil {
		mode, delay = l.mode, l.delay
		l.dials++
	}
	n.mu.Unlock()
	opErr := func(e error) error {
		return &net.OpError{Op: "dial", Net: network, Err: e}
	}
	if l == nil || mode == "refuse" {
		if l != nil {
			n.stats.fire("dial_refuse")
		}
		if delay > 0 {
			t := time.NewTimer(delay)
			select {
			case <-t.C:
			case <-ctx.Done():
				t.Stop()
				return nil, opErr(ctx.Err())
			}
		}
		return nil, opErr(syscall.ECONNREFUSED)
	}
	if mode == "timeout" {
		n.stats.fire("dial_timeout")
		<-ctx.Done()
		return nil, opErr(simTimeoutErr{})
	}
	if delay > 0 {
		t := time.NewTimer(delay)
		select {
		case <-t.C:
		case <-ctx.Done():
			t.Stop()
			return nil, opErr(ctx.Err())
		}
	}
	host, portStr, err := net.SplitHostPort(address)
	if err != nil {
		return nil, opErr(err)
	}
	var rport int
	fmt.Sscanf(portStr, "%d", &rport)
	rip := net.ParseIP(host)
	if v4 := rip.To4(); v4 != nil {
		rip = v4
	}
	lip := n.serverIP
	if ta, ok := laddr.(*net.TCPAddr); ok && ta != nil && len(ta.IP) > 0 && !ta.IP.IsUnspecified() {
		lip = ta.IP
		if v4 := lip.To4(); v4 != nil {
			lip = v4
		}
	} else if rip.To4() == nil {
		lip = net.ParseIP("2001:db8::1")
	}
	a, b := n.pair(&net.TCPAddr{IP: lip, Port: n.port()}, &net.TCPAddr{IP: rip, Port: rport})
	go l.handle(b)
	return net.NewSimTCPConn(a), nil
}

var errNoListener = errors.New("no listener")

// ---------------------------------------------------------------- datagram sockets (BFD)

type udpDgram struct {
	b    []byte
	from *net.UDPAddr
}

// simUDP is a datagram socket handed to gobgp (wrapped in a *net.UDPConn by the net overlay).
// A listening socket receives what the harness delivers with deliver(); a connected (dialled)
// socket hands what gobgp writes to onWrite.
type simUDP struct {
	net     *simNet
	mu      sync.Mutex
	q       []udpDgram
	wake    chan struct{}
	closeCh chan struct{}
	closed  bool
	la, ra  *net.UDPAddr
	listen  bool
	onWrite func(u *simUDP, b []byte)
	writes  int
}

func (u *simUDP) isClosed() bool {
	u.mu.Lock()
	defer u.mu.Unlock()
	return u.closed
}

func (u *simUDP) deliver(b []byte, from *net.UDPAddr) bool {
	u.mu.Lock()
	if u.closed || len(u.q) >= 256 {
		u.mu.Unlock()
		return false
	}
	u.q = append(u.q, udpDgram{append([]byte(nil), b...), from})
	u.mu.Unlock()
	select {
	case u.wake <- struct{}{}:
	default:
	}
	return true
}

func (u *simUDP) ReadFromUDP(b []byte) (int, *net.UDPAddr, error) {
	for {
		u.mu.Lock()
		if u.closed {
			u.mu.Unlock()
			return 0, nil, &net.OpError{Op: "read", Net: "udp", Err: net.ErrClosed}
		}
		if len(u.q) > 0 {
			d := u.q[0]
			u.q = u.q[1:]
			u.mu.Unlock()
			n := copy(b, d.b)
			return n, d.from, nil
		}
		u.mu.Unlock()
		select {
		case <-u.wake:
		case <-u.closeCh:
		}
	}
}

func (u *simUDP) Read(b []byte) (int, error) {
	n, _, err := u.ReadFromUDP(b)
	return n, err
}

func (u *simUDP) Write(b []byte) (int, error) {
	u.mu.Lock()
	if u.closed {
		u.mu.Unlock()
		return 0, &net.OpError{Op: "write", Net: "udp", Err: net.ErrClosed}
	}
	u.writes++
	f := u.onWrite
	u.mu.Unlock()
	if f != nil {
		f(u, append([]byte(nil), b...))
	}
	return len(b), nil
}

func (u *simUDP) Close() error {
	u.mu.Lock()
	if u.closed {
		u.mu.Unlock()
		return &net.OpError{Op: "close", Net: "udp", Err: net.ErrClosed}
	}
	u.closed = true
	close(u.closeCh)
	u.mu.Unlock()
	return nil
}

func (u *simUDP) LocalAddr() net.Addr {
	return u.la
}

func (u *simUDP) RemoteAddr() net.Addr {
	if u.ra == nil {
		return nil
	}
	return u.ra
}
func (u *simUDP) SetDeadline(t time.Time) error      { return nil }
func (u *simUDP) SetReadDeadline(t time.Time) error  { return nil }
func (u *simUDP) SetWriteDeadline(t time.Time) error { return nil }

func (n *simNet) newUDP(la, ra *net.UDPAddr, listen bool) *simUDP {
	u := &simUDP{net: n, wake: make(chan struct{}, 1), closeCh: make(chan struct{}), la: la, ra: ra, listen: listen}
	n.mu.Lock()
	n.udps = append(n.udps, u)
	n.mu.Unlock()
	return u
}

// openUDP returns the datagram sockets gobgp has not closed.
func (n *simNet) openUDP() []*simUDP {
	n.mu.Lock()
	defer n.mu.Unlock()
	var l []*simUDP
	for _, u := range n.udps {
		if !u.isClosed() {
			l = append(l, u)
		}
	}
	return l
}

// listenPacket serves net.SimListenPacketHook.
func (n *simNet) listenPacket(ctx context.Context, network, address string) (net.PacketConn, error) {
	_, portStr, err := net.SplitHostPort(address)
	if err != nil {
		return nil, &net.OpError{Op: "listen", Net: network, Err: err}
	}
	var port int
	fmt.Sscanf(portStr, "%d", &port)
	n.mu.Lock()
	for _, u := range n.udps {
		if u.listen && u.la.Port == port && !u.isClosed() {
			n.mu.Unlock()
			return nil, &net.OpError{Op: "listen", Net: network, Err: syscall.EADDRINUSE}
		}
	}
	h := n.udpListenHook
	n.mu.Unlock()
	u := n.newUDP(&net.UDPAddr{IP: n.serverIP, Port: port}, nil, true)
	if h != nil {
		h(u)
	}
	return net.NewSimUDPConn(u), nil
}

// dialUDP is the datagram branch of dial.
func (n *simNet) dialUDP(network, address string, laddr net.Addr) (net.Conn, error) {
	host, portStr, err := net.SplitHostPort(address)
	if err != nil {
		return nil, &net.OpError{Op: "dial", Net: network, Err: err}
	}
	var rport int
	fmt.Sscanf(portStr, "%d", &rport)
	rip := net.ParseIP(host)
	if v4 := rip.To4(); v4 != nil {
		rip = v4
	}
	lport := 0
	if ua, ok := laddr.(*net.UDPAddr); ok && ua != nil {
		lport = ua.Port
	}
	lip := n.serverIP
	if rip.To4() == nil {
		lip = net.ParseIP("2001:db8::1")
	}
	n.mu.Lock()
	h := n.udpDialHook
	n.mu.Unlock()
	u := n.newUDP(&net.UDPAddr{IP: lip, Port: lport}, &net.UDPAddr{IP: rip, Port: rport}, false)
	if h != nil {
		h(u)
	}
	return net.NewSimUDPConn(u), nil
}
