package server

// Reference model: what a BGP speaker configured like the script's gobgp instance should hold and
// advertise.  Written from the property statements and RFC 4271/4456/7911, with plain maps and
// slices; it shares nothing with the implementation.

import (
	"fmt"
	"sort"
	"strings"
)

// specAttrs is the semantic content a neighbour put on the wire for an announcement.
func specAttrs(r *annRoute, srcCfg *PeerCfg) *rAttrs {
	s := r.Spec
	a := &rAttrs{Origin: s.Origin, HasASPath: true, MED: s.MED, LocalPref: s.LocalPref, AtomicAgg: s.AtomicAgg, Other: map[uint8]string{}}
	for _, sg := range s.ASPath {
		a.ASPath = append(a.ASPath, asSeg{sg.Type, append([]uint32(nil), sg.ASNs...)})
	}
	a.NextHop = s.NextHop
	a.Comms = specComms(s, r.Tag)
	a.Originator = s.Originator
	a.ClusterList = append([]string(nil), s.ClusterList...)
	a.ExtComms = append([]string(nil), s.ExtComms...)
	for _, u := range s.Unknown {
		a.Other[u.Type] = fmt.Sprintf("%02x:%s", u.Flags&0xe0, u.Hex)
	}
	return a
}

func pathHasAS(p []asSeg, as uint32) bool {
	for _, s := range p {
		for _, a := range s.ASNs {
			if a == as {
				return true
			}
		}
	}
	return false
}

func pathCountAS(p []asSeg, as uint32) int {
	n := 0
	for _, s := range p {
		for _, a := range s.ASNs {
			if a == as {
				n++
			}
		}
	}
	return n
}

// asPathLen: RFC 4271 9.1.2.2 (a) / RFC 5065: a SET counts 1, confederation segments count 0.
func asPathLen(p []asSeg) int {
	n := 0
	for _, s := range p {
		switch s.Type {
		case 2:
			n += len(s.ASNs)
		case 1:
			n++
		}
	}
	return n
}

func isIBGPKind(k string) bool { return k == "ibgp" || k == "rrclient" }

// inboundUsable: loop checks a receiving speaker applies (C09 inbound half, C02 Loc-RIB content).
func (w *simWorld) inboundUsable(r *annRoute, src *PeerCfg) bool {
	g := w.sc.Global
	localAS := g.AS
	if pathCountAS(r.Spec.ASPath, localAS) > src.AllowOwnAS {
		return false
	}
	if isIBGPKind(src.Kind) && r.Spec.Originator == g.RouterID {
		return false
	}
	return true
}

// exportable decides whether route r (from source src, nil when local) may be advertised to target t.
// reason is for diagnostics.
func (w *simWorld) exportable(r *annRoute, src *PeerCfg, t *PeerCfg) (bool, string) {
	g := w.sc.Global
	if !hasString(t.Families, r.Fam.String()) {
		return false, "family"
	}
	if src != nil && src.Idx == t.Idx {
		return false, "split-horizon"
	}
	if src != nil && src.RouterID == t.RouterID {
		return false, "same-router"
	}
	if t.Kind == "rsclient" {
		return true, ""
	}
	// AS loop towards the peer.  The statement names eBGP peers; for an iBGP peer the peer AS is
	// the local AS, and a route carrying it (allow-own-as, or an API route built that way) would be
	// discarded by the peer's own loop check - withholding it is loop prevention too.
	if pathHasAS(r.Spec.ASPath, t.AS) {
		return false, "as-loop"
	}
	if isIBGPKind(t.Kind) {
		if src != nil && isIBGPKind(src.Kind) {
			// iBGP -> iBGP only through route reflection
			if src.Kind != "rrclient" && t.Kind != "rrclient" {
				return false, "ibgp-to-ibgp"
			}
			if t.Kind == "rrclient" {
				for _, c := range r.Spec.ClusterList {
					if c == g.RouterID {
						return false, "cluster-loop"
					}
				}
			}
		}
		return true, ""
	}
	return true, ""
}

func hasString(l []string, s string) bool {
	for _, x := range l {
		if x == s {
			return true
		}
	}
	return false
}

// exportAttrs: the attributes route r must carry when advertised to t.  The second result lists
// alternative acceptable renderings where the statement leaves latitude.
func (w *simWorld) exportAttrs(r *annRoute, src *PeerCfg, t *PeerCfg) []*rAttrs {
	g := w.sc.Global
	in := specAttrs(r, src)
	// what the speaker stores after ingress: LOCAL_PREF from eBGP neighbours is not used
	if src != nil && !isIBGPKind(src.Kind) && src.Kind != "rsclient" {
		in.LocalPref = -1
	}
	local := src == nil
	// the session's local address; an IPv6 route over an IPv4 session gets the IPv4-mapped form
	serverAddr := "10.0.0.1"
	if strings.Contains(t.Addr, ":") {
		serverAddr = "2001:db8::1"
	} else if r.Fam == famV6 {
		serverAddr = "::ffff:10.0.0.1"
	}
	out := in.clone()
	if t.Kind == "rsclient" {
		return []*rAttrs{out}
	}
	// unknown optional non-transitive attributes are not propagated; the Partial bit of
	// transitive ones may or may not be set by a speaker that does not recognise them.
	for ty, v := range in.Other {
		fl := parseHexByte(v[:2])
		if fl&0x40 == 0 {
			delete(out.Other, ty)
		} else {
			out.Other[ty] = fmt.Sprintf("%02x:%s", fl&0xc0, v[3:])
		}
	}
	var alts []*rAttrs
	if isIBGPKind(t.Kind) {
		if out.LocalPref < 0 {
			out.LocalPref = 100
		}
		if local && (in.NextHop == "" || in.NextHop == "0.0.0.0" || in.NextHop == "::") {
			out.NextHop = serverAddr
		}
		if t.Kind == "rrclient" {
			if out.Originator == "" {
				if local {
					out.Originator = g.RouterID
				} else {
					out.Originator = src.RouterID
				}
			}
			out.ClusterList = append([]string{g.RouterID}, out.ClusterList...)
			alts = append(alts, out)
		} else {
			// non-client iBGP peer: the statement does not say whether reflection attributes are
			// kept; accept both.
			a := out.clone()
			a.Originator = ""
			a.ClusterList = nil
			alts = append(alts, out, a)
			if src != nil && src.Kind == "rrclient" {
				b := out.clone()
				if b.Originator == "" {
					b.Originator = src.RouterID
				}
				b.ClusterList = append([]string{g.RouterID}, b.ClusterList...)
				alts = append(alts, b)
			}
		}
		return alts
	}
	// eBGP
	out.LocalPref = -1
	out.Originator = ""
	out.ClusterList = nil
	if !local {
		out.MED = -1
	}
	out.ASPath = prependAS(removeConfed(out.ASPath), g.AS)
	out.HasASPath = true
	if local && in.NextHop != "" && in.NextHop != "0.0.0.0" && in.NextHop != "::" {
		// locally originated with an explicit next hop: third-party next hop or self both legal
		a := out.clone()
		a.NextHop = serverAddr
		alts = append(alts, out, a)
		return alts
	}
	out.NextHop = serverAddr
	return []*rAttrs{out}
}

func parseHexByte(s string) uint8 {
	var v uint8
	fmt.Sscanf(s, "%02x", &v)
	return v
}

func removeConfed(p []asSeg) []asSeg {
	var out []asSeg
	for _, s := range p {
		if s.Type == 3 || s.Type == 4 {
			continue
		}
		out = append(out, s)
	}
	return out
}

func prependAS(p []asSeg, as uint32) []asSeg {
	if len(p) > 0 && p[0].Type == 2 && len(p[0].ASNs) < 255 {
		n := asSeg{2, append([]uint32{as}, p[0].ASNs...)}
		return append([]asSeg{n}, p[1:]...)
	}
	return append([]asSeg{{2, []uint32{as}}}, p...)
}

// normalizeForCompare masks the parts of observed attributes where any rendering is acceptable.
func normalizeObserved(a *rAttrs) *rAttrs {
	b := a.clone()
	for ty, v := range b.Other {
		fl := parseHexByte(v[:2])
		b.Other[ty] = fmt.Sprintf("%02x:%s", fl&0xc0, v[3:])
	}
	return b
}

func matchAny(obs *rAttrs, alts []*rAttrs) bool {
	o := normalizeObserved(obs).String()
	for _, a := range alts {
		if a.String() == o {
			return true
		}
	}
	return false
}

func altsString(alts []*rAttrs) string {
	var l []string
	for _, a := range alts {
		l = append(l, a.String())
	}
	sort.Strings(l)
	return strings.Join(l, "  |OR|  ")
}
