package server

// Reference model: what a BGP speaker configured like the script's gobgp instance should hold and
// advertise.  Written from the property statements and RFC 4271/4456/7911, with plain maps and
// slices; it shares nothing with the implementation.

import (
	"fmt"
	"sort"
	"strings"
)

// specAttrs is the semantic content a neighbour put on the wire for an announcement.
func specAttrs(r *annRoute, srcCfg *PeerCfg) *rAttrs {
	s := r.Spec
	a := &rAttrs{Origin: s.Origin, HasASPath: true, MED: s.MED, LocalPref: s.LocalPref, AtomicAgg: s.AtomicAgg, Other: map[uint8]string{}}
	for _, sg := range s.ASPath {
		a.ASPath = append(a.ASPath, asSeg{sg.Type, append([]uint32(nil), sg.ASNs...)})
	}
	a.NextHop = s.NextHop
	a.Comms = specComms(s, r.Tag)
	a.Originator = s.Originator
	a.ClusterList = append([]string(nil), s.ClusterList...)
	a.ExtComms = append([]string(nil), s.ExtComms...)
	for _, u := range s.Unknown {
		a.Other[u.Type] = fmt.Sprintf("%02x:%s", u.Flags&0xe0, u.Hex)
	}
	return a
}

func pathHasAS(p []asSeg, as uint32) bool {
	for _, s := range p {
		for _, a := range s.ASNs {
			if a == as {
				return true
			}
		}
	}
	return false
}

func pathCountAS(p []asSeg, as uint32) int {
	n := 0
	for _, s := range p {
		for _, a := range s.ASNs {
			if a == as {
				n++
			}
		}
	}
	return n
}

// asPathLen: RFC 4271 9.1.2.2 (a) / RFC 5065: a SET counts 1, confederation segments count 0.
func asPathLen(p []asSeg) int {
	n := 0
	for _, s := range p {
		switch s.Type {
		case 2:
			n += len(s.ASNs)
		case 1:
			n++
		}
	}
	return n
}

func isIBGPKind(k string) bool { return k == "ibgp" || k == "rrclient" }

// inboundUsable: loop checks a receiving speaker applies (C09 inbound half, C02 Loc-RIB content).
func (w *simWorld) inboundUsable(r *annRoute, src *PeerCfg) bool {
	g := w.sc.Global
	localAS := g.AS
	if pathCountAS(r.Spec.ASPath, localAS) > src.AllowOwnAS {
		return false
	}
	if isIBGPKind(src.Kind) && r.Spec.Originator == g.RouterID {
		return false
	}
	if isIBGPKind(src.Kind) && hasString(r.Spec.ClusterList, g.RouterID) {
		return false // the local cluster-id (default: the router id) in CLUSTER_LIST
	}
	return true
}

// exportable decides whether route r (from source src, nil when local) may be advertised to target t.
// reason is for diagnostics.
func (w *simWorld) exportable(r *annRoute, src *PeerCfg, t *PeerCfg) (bool, string) {
	g := w.sc.Global
	if !hasString(t.Families, r.Fam.String()) {
		return false, "family"
	}
	if src != nil && src.Idx == t.Idx {
		return false, "split-horizon"
	}
	if src != nil && src.RouterID == t.RouterID {
		return false, "same-router"
	}
	if t.Kind == "rsclient" {
		return true, ""
	}
	// AS loop towards the peer.  The statement names eBGP peers; for an iBGP peer the peer AS is
	// the local AS, and a route carrying it (allow-own-as, or an API route built that way) would be
	// discarded by the peer's own loop check - withholding it is loop prevention too.
	// With replace-peer-as the peer's AS is substituted first, so it cannot loop.
	if pathHasAS(r.Spec.ASPath, t.AS) && !(t.ReplacePeer && t.Kind == "ebgp") {
		return false, "as-loop"
	}
	if isIBGPKind(t.Kind) {
		if src != nil && isIBGPKind(src.Kind) {
			// iBGP -> iBGP only through route reflection
			if src.Kind != "rrclient" && t.Kind != "rrclient" {
				return false, "ibgp-to-ibgp"
			}
			if t.Kind == "rrclient" {
				for _, c := range r.Spec.ClusterList {
					if c == g.RouterID {
						return false, "cluster-loop"
					}
				}
			}
		}
		return true, ""
	}
	return true, ""
}

func hasString(l []string, s string) bool {
	for _, x := range l {
		if x == s {
			return true
		}
	}
	return false
}

// exportAttrs: the attributes route r must carry when advertised to t.  The second result lists
// alternative acceptable renderings where the statement leaves latitude.
func (w *simWorld) exportAttrs(r *annRoute, src *PeerCfg, t *PeerCfg) []*rAttrs {
	g := w.sc.Global
	in := specAttrs(r, src)
	// what the speaker stores after ingress: LOCAL_PREF from eBGP neighbours is not used
	if src != nil && !isIBGPKind(src.Kind) && src.Kind != "rsclient" {
		in.LocalPref = -1
	}
	local := src == nil
	// the session's local address; an IPv6 route over an IPv4 session gets the IPv4-mapped form
	serverAddr := "10.0.0.1"
	if strings.Contains(t.Addr, ":") {
		serverAddr = "2001:db8::1"
	} else if r.Fam == famV6 {
		serverAddr = "::ffff:10.0.0.1"
	}
	out := in.clone()
	if t.Kind == "rsclient" {
		return []*rAttrs{out}
	}
	// unknown optional non-transitive attributes are not propagated; the Partial bit of
	// transitive ones may or may not be set by a speaker that does not recognise them.
	for ty, v := range in.Other {
		fl := parseHexByte(v[:2])
		if fl&0x40 == 0 {
			delete(out.Other, ty)
		} else {
			out.Other[ty] = fmt.Sprintf("%02x:%s", fl&0xc0, v[3:])
		}
	}
	var alts []*rAttrs
	if isIBGPKind(t.Kind) {
		if out.LocalPref < 0 {
			out.LocalPref = 100
		}
		if local && (in.NextHop == "" || in.NextHop == "0.0.0.0" || in.NextHop == "::") {
			out.NextHop = serverAddr
		}
		if t.Kind == "rrclient" {
			if out.Originator == "" {
				if local {
					out.Originator = g.RouterID
				} else {
					out.Originator = src.RouterID
				}
			}
			out.ClusterList = append([]string{g.RouterID}, out.ClusterList...)
			alts = append(alts, out)
		} else {
			// non-client iBGP peer: the statement does not say whether reflection attributes are
			// kept; accept both.
			a := out.clone()
			a.Originator = ""
			a.ClusterList = nil
			alts = append(alts, out, a)
			if src != nil && src.Kind == "rrclient" {
				b := out.clone()
				if b.Originator == "" {
					b.Originator = src.RouterID
				}
				b.ClusterList = append([]string{g.RouterID}, b.ClusterList...)
				alts = append(alts, b)
			}
		}
		return alts
	}
	// eBGP
	out.LocalPref = -1
	out.Originator = ""
	out.ClusterList = nil
	if !local {
		out.MED = -1
	}
	path := out.ASPath
	if t.ReplacePeer {
		path = mapAS(path, func(a uint32) (uint32, bool) {
			if a == t.AS {
				return g.AS, true
			}
			return a, true
		})
	}
	switch t.RemovePriv {
	case "all":
		path = mapAS(path, func(a uint32) (uint32, bool) { return a, !privateAS(a) })
	case "replace":
		path = mapAS(path, func(a uint32) (uint32, bool) {
			if privateAS(a) {
				return g.AS, true
			}
			return a, true
		})
	}
	out.ASPath = prependAS(removeConfed(path), g.AS)
	out.HasASPath = true
	if local && in.NextHop != "" && in.NextHop != "0.0.0.0" && in.NextHop != "::" {
		// locally originated with an explicit next hop: third-party next hop or self both legal
		a := out.clone()
		a.NextHop = serverAddr
		alts = append(alts, out, a)
		return alts
	}
	out.NextHop = serverAddr
	return []*rAttrs{out}
}

func parseHexByte(s string) uint8 {
	var v uint8
	fmt.Sscanf(s, "%02x", &v)
	return v
}

func removeConfed(p []asSeg) []asSeg {
	var out []asSeg
	for _, s := range p {
		if s.Type == 3 || s.Type == 4 {
			continue
		}
		out = append(out, s)
	}
	return out
}

func prependAS(p []asSeg, as uint32) []asSeg {
	if len(p) > 0 && p[0].Type == 2 && len(p[0].ASNs) < 255 {
		n := asSeg{2, append([]uint32{as}, p[0].ASNs...)}
		return append([]asSeg{n}, p[1:]...)
	}
	return append([]asSeg{{2, []uint32{as}}}, p...)
}

// normalizeForCompare masks the parts of observed attributes where any rendering is acceptable.
func normalizeObserved(a *rAttrs) *rAttrs {
	b := a.clone()
	for ty, v := range b.Other {
		fl := parseHexByte(v[:2])
		b.Other[ty] = fmt.Sprintf("%02x:%s", fl&0xc0, v[3:])
	}
	return b
}

func matchAny(obs *rAttrs, alts []*rAttrs) bool {
	o := normalizeObserved(obs).String()
	for _, a := range alts {
		if a.String() == o {
			return true
		}
	}
	return false
}

func altsString(alts []*rAttrs) string {
	var l []string
	for _, a := range alts {
		l = append(l, a.String())
	}
	sort.Strings(l)
	return strings.Join(l, "  |OR|  ")
}

// ---------------------------------------------------------------- C03: decision process

type cand struct {
	rp  *ribPath
	r   *annRoute
	src *PeerCfg // nil: local
}

func (c cand) localPref() int64 {
	if c.src != nil && !isIBGPKind(c.src.Kind) {
		return 100 // LOCAL_PREF from eBGP neighbours is not used
	}
	if c.r.Spec.LocalPref < 0 {
		return 100
	}
	return c.r.Spec.LocalPref
}

func (c cand) med() int64 {
	if c.r.Spec.MED < 0 {
		return 0
	}
	return c.r.Spec.MED
}

func (c cand) neighborAS() uint32 {
	for _, s := range c.r.Spec.ASPath {
		if s.Type == 3 || s.Type == 4 || len(s.ASNs) == 0 {
			continue
		}
		return s.ASNs[0]
	}
	return 0
}

func (c cand) isIBGP() bool { return c.src != nil && isIBGPKind(c.src.Kind) }

func keepMin(l []cand, f func(cand) int64) []cand {
	if len(l) == 0 {
		return l
	}
	m := f(l[0])
	for _, c := range l[1:] {
		if v := f(c); v < m {
			m = v
		}
	}
	var out []cand
	for _, c := range l {
		if f(c) == m {
			out = append(out, c)
		}
	}
	return out
}

// decide runs the documented decision process as selection by elimination over the candidate set
// and returns the set of candidates any of which is an acceptable best (a singleton unless the
// statement leaves the choice open), plus whether MED was comparable across all candidates, plus
// the survivors of the steps before MED.
func (w *simWorld) decide(cands []cand) (best []cand, medComparable bool, preMED []cand) {
	g := w.sc.Global
	l := cands
	// highest LOCAL_PREF
	l = keepMin(l, func(c cand) int64 { return -c.localPref() })
	// locally originated
	var loc []cand
	for _, c := range l {
		if c.src == nil {
			loc = append(loc, c)
		}
	}
	if len(loc) > 0 {
		l = loc
	}
	// shortest AS_PATH
	if !g.IgnoreASPathLen {
		l = keepMin(l, func(c cand) int64 { return int64(asPathLen(c.r.Spec.ASPath)) })
	}
	// lowest ORIGIN
	l = keepMin(l, func(c cand) int64 { return int64(c.r.Spec.Origin) })
	preMED = l
	// MED among comparable routes (RFC 4271 9.1.2.2 c): a route is removed if another route still in
	// consideration, learned from the same neighbouring AS (or any, with always-compare-med; or both
	// originated inside the local AS), has a lower MED
	comparable := func(a, b cand) bool {
		if g.AlwaysCompareMed {
			return true
		}
		if asPathLen(a.r.Spec.ASPath) == 0 && asPathLen(b.r.Spec.ASPath) == 0 {
			return true
		}
		return a.neighborAS() != 0 && a.neighborAS() == b.neighborAS()
	}
	medComparable = true
	for i := range cands {
		for k := i + 1; k < len(cands); k++ {
			if !comparable(cands[i], cands[k]) && cands[i].med() != cands[k].med() {
				medComparable = false
			}
		}
	}
	{
		var keep []cand
		for _, c := range l {
			beaten := false
			for _, d := range l {
				if d.r.Tag != c.r.Tag && comparable(c, d) && d.med() < c.med() {
					beaten = true
				}
			}
			if !beaten {
				keep = append(keep, c)
			}
		}
		l = keep
	}
	// eBGP over iBGP
	hasE := false
	for _, c := range l {
		if !c.isIBGP() {
			hasE = true
		}
	}
	if hasE {
		var e []cand
		for _, c := range l {
			if !c.isIBGP() {
				e = append(e, c)
			}
		}
		l = e
	}
	if len(l) <= 1 {
		return l, true, preMED
	}
	if hasE && !g.ExternalCompareID {
		// oldest eBGP route; the implementation records arrival at one-second granularity, the
		// statement does not say: candidates within the same second as the oldest stay acceptable
		oldest := l[0].r.At
		for _, c := range l {
			if c.r.At < oldest {
				oldest = c.r.At
			}
		}
		sec := int64(oldest.Seconds())
		var o []cand
		for _, c := range l {
			if int64(c.r.At.Seconds()) == sec {
				o = append(o, c)
			}
		}
		l = o
		if len(l) <= 1 {
			return l, true, preMED
		}
		// same instant: lowest neighbour address (router-id is not used between eBGP routes, RFC 5004)
		exact := true
		for _, c := range l {
			if c.r.At != l[0].r.At {
				exact = false
			}
		}
		if !exact {
			return l, true, preMED // open: oldest by sub-second arrival, or tie broken by address
		}
		return keepMin(l, func(c cand) int64 { return addrKey(c.src.Addr) }), true, preMED
	}
	// lowest router-id (ORIGINATOR_ID may stand in for it: RFC 4456 - statement silent, keep open)
	for _, c := range l {
		if c.r.Spec.Originator != "" {
			return l, true, preMED
		}
	}
	l = keepMin(l, func(c cand) int64 { return addrKey(c.src.RouterID) })
	if len(l) > 1 {
		l = keepMin(l, func(c cand) int64 { return addrKey(c.src.Addr) })
	}
	return l, true, preMED
}

func addrKey(a string) int64 {
	var b [4]int64
	fmt.Sscanf(a, "%d.%d.%d.%d", &b[0], &b[1], &b[2], &b[3])
	return b[0]<<24 | b[1]<<16 | b[2]<<8 | b[3]
}

// ---------------------------------------------------------------- C11: size of a single-route UPDATE

func attrLen(valLen int) int {
	if valLen > 255 {
		return 4 + valLen
	}
	return 3 + valLen
}

// updateWireLen: octets of an UPDATE announcing one route with these attributes (RFC 4271 4.3).
func updateWireLen(a *rAttrs, fam wFamily, as2, pathID bool) int {
	n := 19 + 2 + 2
	n += attrLen(1) // ORIGIN
	w := 4
	if as2 {
		w = 2
	}
	pl := 0
	as4 := false
	for _, s := range a.ASPath {
		pl += 2 + w*len(s.ASNs)
		for _, x := range s.ASNs {
			if x > 65535 {
				as4 = true
			}
		}
	}
	n += attrLen(pl)
	if as2 && as4 {
		p4 := 0
		for _, s := range a.ASPath {
			p4 += 2 + 4*len(s.ASNs)
		}
		n += attrLen(p4)
	}
	if a.MED >= 0 {
		n += attrLen(4)
	}
	if a.LocalPref >= 0 {
		n += attrLen(4)
	}
	if a.AtomicAgg {
		n += attrLen(0)
	}
	if len(a.Comms) > 0 {
		n += attrLen(4 * len(a.Comms))
	}
	if a.Originator != "" {
		n += attrLen(4)
	}
	if len(a.ClusterList) > 0 {
		n += attrLen(4 * len(a.ClusterList))
	}
	if len(a.ExtComms) > 0 {
		n += attrLen(8 * len(a.ExtComms))
	}
	for _, v := range a.Other {
		n += attrLen((len(v) - 3) / 2)
	}
	pid := 0
	if pathID {
		pid = 4
	}
	if fam == famV4 {
		n += attrLen(4)  // NEXT_HOP
		n += pid + 1 + 3 // /24 NLRI
	} else {
		n += attrLen(2 + 1 + 1 + 16 + 1 + pid + 1 + 6) // MP_REACH: afi safi nhlen nh reserved nlri(/48)
	}
	return n
}

func privateAS(a uint32) bool {
	return 64512 <= a && a <= 65534 || 4200000000 <= a && a <= 4294967294
}

// mapAS applies f to every AS number; f returns (replacement, keep). Empty segments disappear.
func mapAS(p []asSeg, f func(uint32) (uint32, bool)) []asSeg {
	var out []asSeg
	for _, s := range p {
		n := asSeg{Type: s.Type}
		for _, a := range s.ASNs {
			if v, keep := f(a); keep {
				n.ASNs = append(n.ASNs, v)
			}
		}
		if len(n.ASNs) > 0 {
			out = append(out, n)
		}
	}
	return out
}
