package server

// Family "fsm": one neighbour, a sequence of protocol and administrative events in virtual time,
// checked step by step against a small executable model of the RFC 4271 session state machine
// (NOTIFICATION codes per RFC 4271 s.6 / RFC 6608 / RFC 4486, timers per s.8 and s.10).
//   C07  transitions, notifications, timer instants, reported state
//   C08  (mode "nego") negotiated parameters vs the intersection of both OPENs

import (
	"context"
	"encoding/binary"
	"fmt"
	"net"
	"net/netip"
	"strings"
	"sync"
	"testing/synctest"
	"time"

	"github.com/osrg/gobgp/v4/api"
)

func init() {
	families["fsm"] = &familyImpl{setup: fsmSetup, op: fsmOp, check: fsmCheck}
	extraGenerators["fsm"] = genFSM
}

type rawMsg struct {
	At   time.Duration
	Type uint8
	Code uint8
	Sub  uint8
	Open *wOpenMsg
	Len  int
	Upd  *wUpdateMsg
}

func (m rawMsg) String() string {
	switch m.Type {
	case wOpen:
		return fmt.Sprintf("OPEN@%.3f", m.At.Seconds())
	case wKeepalive:
		return fmt.Sprintf("KEEPALIVE@%.3f", m.At.Seconds())
	case wNotification:
		return fmt.Sprintf("NOTIFICATION(%d/%d)@%.3f", m.Code, m.Sub, m.At.Seconds())
	case wUpdate:
		return fmt.Sprintf("UPDATE@%.3f", m.At.Seconds())
	}
	return fmt.Sprintf("type%d@%.3f", m.Type, m.At.Seconds())
}

// rawSess is one transport connection with gobgp, driven message by message by the script.
type rawSess struct {
	c        *simConn
	dir      string
	mu       sync.Mutex
	rx       []rawMsg
	closed   bool
	closedAt time.Duration
	closeWhy string
	bad      string
	dec      wOpts
}

func (w *simWorld) newRawSess(c *simConn, dir string) *rawSess {
	s := &rawSess{c: c, dir: dir, dec: wOpts{AddPath: map[wFamily]bool{}}}
	go func() {
		for {
			m, err := readWireMsgLate(c, func() wOpts {
				s.mu.Lock()
				defer s.mu.Unlock()
				return s.dec
			})
			now := w.now()
			s.mu.Lock()
			if err != nil {
				s.closed = true
				s.closedAt = now
				s.closeWhy = err.Error()
				if strings.HasPrefix(s.closeWhy, "undecodable") || strings.HasPrefix(s.closeWhy, "bad header") {
					s.bad = s.closeWhy
				}
				s.mu.Unlock()
				w.logf("raw %s closed: %s", dir, err)
				return
			}
			r := rawMsg{At: now, Type: m.Type, Len: m.Len, Open: m.Open, Upd: m.Update}
			if m.Notif != nil {
				r.Code, r.Sub = m.Notif.Code, m.Notif.Sub
			}
			s.rx = append(s.rx, r)
			s.mu.Unlock()
			w.logf("raw %s rx %s len=%d", dir, r, m.Len)
		}
	}()
	return s
}

func (s *rawSess) snapshot() ([]rawMsg, bool, time.Duration) {
	s.mu.Lock()
	defer s.mu.Unlock()
	return append([]rawMsg(nil), s.rx...), s.closed, s.closedAt
}

// vsFsmModel is the family's run state: the model of the single neighbour's session.
type vsFsmModel struct {
	p        *simPeer
	cfg      *PeerCfg
	sess     *rawSess // connection the state machine is on (nil: none)
	obs      int      // messages of sess already accounted for
	state    string   // idle active opensent openconfirm established
	admin    bool     // admin up
	idleTill time.Duration
	// timers (absolute virtual instants; 0 = not running)
	holdAt  time.Duration
	kaEvery time.Duration
	kaNext  time.Duration
	negHold int
	openAt  time.Duration
	// for nego
	gobgpOpen *wOpenMsg
	peerOpen  openSpec
	outMode   string
	pendOut   []*rawSess
	mu        sync.Mutex
	dead      []*rawSess // connections the model expects gobgp to have closed
	estCount  int
	negoProbe bool   // the current op probes negotiated options (mode nego)
	lenient   string // alternative state the RFC also allows at this point
	ribBefore int
}

type openSpec struct {
	Kind     string // valid badversion badas badid hold1 hold2 hold0 unsupparam
	Hold     int
	NoAS4    bool
	NoMP     bool
	ExtMsg   bool
	AddPath  int // 0 none, 1 receive, 2 send, 3 both (peer's view)
	DupCaps  bool
	Unknown  bool
	APExtra  bool // the ADD-PATH capability also lists ipv6-unicast although no Multiprotocol capability does
	Families []string
	AS       uint32
}

func (w *simWorld) fsm() *vsFsmModel { return w.fam.(*vsFsmModel) }

func fsmSetup(w *simWorld) error {
	p := w.peers[0]
	st := &vsFsmModel{p: p, cfg: p.cfg, state: "active", admin: true}
	w.fam = st
	if p.cfg.Active {
		// gobgp dials: connections arrive through the listener
		w.net.listen(net.JoinHostPort(p.cfg.Addr, "179"), &simListener{mode: "refuse", handle: func(c *simConn) {
			s := w.newRawSess(c, "out")
			st.mu.Lock()
			st.pendOut = append(st.pendOut, s)
			st.mu.Unlock()
			w.logf("gobgp dialled the neighbour")
		}})
	}
	return nil
}

// ---------------------------------------------------------------- generator

func genFSM(seed uint64, tier, mode string) *Script {
	g := newGen(seed)
	sc := &Script{Family: "fsm", Mode: mode, Seed: seed}
	sc.SchedSeed = g.u64() | 1
	sc.YieldN = pick(g, yieldChoices)
	sc.SelShuffle = g.p(70)
	sc.Global = GlobalCfg{AS: 65000, RouterID: "10.0.0.1"}
	c := PeerCfg{Idx: 0, Addr: peerAddr(0), RouterID: peerRID(0), Families: []string{"ipv4-unicast"}}
	if g.p(70) {
		c.Kind, c.AS = "ebgp", 65001
	} else {
		c.Kind, c.AS = "ibgp", 65000
	}
	c.HoldTime = pick(g, []int{9, 12, 30, 90})
	if mode == "nego" {
		if g.p(40) {
			c.Families = append(c.Families, "ipv6-unicast")
		}
		if g.p(40) {
			c.AddPathRecv = true
		}
		if g.p(40) {
			c.SendMax = g.rng(1, 3)
		}
		if g.p(15) {
			sc.Global.AS = 4200000001
			if c.Kind == "ibgp" {
				c.AS = sc.Global.AS
			}
		}
	}
	sc.Peers = []PeerCfg{c}
	var ops []Op
	add := func(kind string, arg string, n int) { ops = append(ops, Op{Kind: kind, Actor: 0, Arg: arg, N: n}) }
	opens := []string{"valid", "valid", "valid", "valid", "badversion", "badas", "badid", "hold1", "hold2", "unsupparam"}
	if mode == "nego" {
		// every cycle establishes with a generated OPEN and then probes the negotiated behaviour
		cycles := g.rng(1, 3)
		for i := 0; i < cycles; i++ {
			add("connect", "", 0)
			o := Op{Kind: "open", Actor: 0, Arg: "valid"}
			o.N = pick(g, []int{0, 3, 6, 9, 30, 90, 180})
			var fl []string
			if g.p(30) {
				fl = append(fl, "noas4")
			}
			if g.p(15) {
				fl = append(fl, "nomp")
			}
			if g.p(40) {
				fl = append(fl, "extmsg")
			}
			if g.p(50) {
				fl = append(fl, fmt.Sprintf("addpath%d", g.rng(1, 3)))
			}
			if g.p(25) {
				fl = append(fl, "dupcaps")
			}
			if g.p(25) {
				fl = append(fl, "unknowncap")
			}
			if g.p(40) {
				fl = append(fl, "v6")
			} else if g.p(50) {
				fl = append(fl, "apextra")
			}
			o.Arg2 = strings.Join(fl, ",")
			ops = append(ops, o)
			add("ka", "", 0)
			add("negocheck", "", 0)
			if g.p(60) {
				add("bigupdate", "", pick(g, []int{4096, 4097, 5000}))
			}
			if g.p(60) {
				add("apupdate", "", 0)
			}
			if g.p(50) {
				add("wait", "", pick(g, []int{1000, 4000, 11000, 31000, 95000}))
			}
			add(pick(g, []string{"close", "reset", "notif"}), "6/4", 0)
			add("wait", "", 6000)
		}
		sc.Phases = []Phase{{Ops: ops, Settle: 2, Check: true}}
		sc.Final = "stop"
		return sc
	}
	if g.p(25) {
		sc.Peers[0].Active = true
	}
	n := g.rng(4, 14)
	if tier == "thorough" {
		n = g.rng(6, 30)
	}
	bringUp := func() {
		if sc.Peers[0].Active {
			add("listen", "accept", 0)
			add("wait", "", 6000)
		} else {
			add("connect", "", 0)
		}
		ops = append(ops, Op{Kind: "open", Actor: 0, Arg: "valid", N: pick(g, []int{0, 3, 9, 30, 90})})
		if g.p(80) {
			add("ka", "", 0)
		}
	}
	if g.p(60) {
		bringUp()
	}
	for i := 0; i < n; i++ {
		r := g.n(100)
		if r >= 98 && g.p(70) {
			add("wait", "", 6000)
			bringUp()
			continue
		}
		switch {
		case r < 18:
			if sc.Peers[0].Active {
				add("listen", pick(g, []string{"accept", "accept", "refuse", "timeout"}), 0)
				add("wait", "", pick(g, []int{3000, 6000, 12000}))
			} else {
				add("connect", "", 0)
			}
		case r < 34:
			o := Op{Kind: "open", Actor: 0, Arg: pick(g, opens), N: pick(g, []int{0, 3, 9, 30, 90})}
			ops = append(ops, o)
		case r < 48:
			add("ka", "", 0)
		case r < 54:
			add("update", "", 0)
		case r < 57:
			add("rr", "", 0)
		case r < 61:
			add("notif", pick(g, []string{"6/2", "6/4", "4/0", "6/9"}), 0)
		case r < 66:
			add("garbage", pick(g, []string{"marker", "short", "long", "type"}), 0)
		case r < 71:
			add(pick(g, []string{"close", "reset"}), "", 0)
		case r < 86:
			add("wait", "", pick(g, []int{500, 2000, 3000, 5000, 9000, 10000, 31000, 91000, 241000}))
		case r < 89:
			add("disable", "", 0)
		case r < 92:
			add("enable", "", 0)
		case r < 94:
			add("shutdown", "", 0)
		case r < 96:
			add("resetpeer", "", 0)
		case r < 98:
			add("openagain", "", 0)
		default:
			add("prefixlimit", "", 0)
		}
	}
	sc.Phases = []Phase{{Ops: ops, Settle: 2, Check: true}}
	sc.Final = pick(g, []string{"stop", "stopbgp", "deleteall"})
	return sc
}

// ---------------------------------------------------------------- building messages

func (w *simWorld) buildOpenSpec(cfg *PeerCfg, o openSpec) []byte {
	var caps []byte
	addCap := func(code uint8, v []byte) {
		caps = append(caps, code, byte(len(v)))
		caps = append(caps, v...)
	}
	fams := o.Families
	if !o.NoMP {
		for _, fn := range fams {
			f := famByName(fn)
			addCap(1, []byte{byte(f.AFI >> 8), byte(f.AFI), 0, f.SAFI})
			if o.DupCaps {
				addCap(1, []byte{byte(f.AFI >> 8), byte(f.AFI), 0, f.SAFI})
			}
		}
	}
	addCap(2, nil)
	if o.ExtMsg {
		addCap(6, nil)
	}
	if !o.NoAS4 {
		addCap(65, u32b(o.AS))
	}
	if o.AddPath != 0 {
		var v []byte
		for _, fn := range fams {
			f := famByName(fn)
			v = append(v, byte(f.AFI>>8), byte(f.AFI), f.SAFI, byte(o.AddPath))
		}
		if o.APExtra && !hasString(fams, "ipv6-unicast") {
			v = append(v, 0, 2, 1, byte(o.AddPath))
		}
		addCap(69, v)
		if o.DupCaps {
			// a second ADD-PATH capability with only the first family and mode "receive"
			f := famByName(fams[0])
			addCap(69, []byte{byte(f.AFI >> 8), byte(f.AFI), f.SAFI, 1})
		}
	}
	if o.Unknown {
		addCap(200, []byte{1, 2, 3})
	}
	as2 := uint16(23456)
	if o.AS <= 65535 {
		as2 = uint16(o.AS)
	}
	ver := byte(4)
	id := netip.MustParseAddr(cfg.RouterID).As4()
	hold := o.Hold
	switch o.Kind {
	case "badversion":
		ver = 3
	case "badas":
		as2 = 64999
		caps = nil
		addCap(65, u32b(64999))
	case "badid":
		id = [4]byte{0, 0, 0, 0}
	case "hold1":
		hold = 1
	case "hold2":
		hold = 2
	}
	body := []byte{ver, byte(as2 >> 8), byte(as2), byte(hold >> 8), byte(hold)}
	body = append(body, id[:]...)
	var opt []byte
	if o.Kind == "unsupparam" {
		opt = append(opt, 9, 2, 0, 0) // optional parameter type 9 is not defined
	}
	if len(caps) > 0 {
		opt = append(opt, 2, byte(len(caps)))
		opt = append(opt, caps...)
	}
	body = append(body, byte(len(opt)))
	body = append(body, opt...)
	return append(wHeader(wOpen, len(body)), body...)
}

func simpleUpdate(cfg *PeerCfg, prefix string, as2 bool, pathID int) []byte {
	var path []asSeg
	if !isIBGPKind(cfg.Kind) {
		path = []asSeg{{2, []uint32{cfg.AS}}}
	}
	var attrs []byte
	attrs = append(attrs, wEncodeAttr(0x40, 1, []byte{0})...)
	attrs = append(attrs, wEncodeAttr(0x40, 2, wEncodeASPath(path, as2))...)
	nh := netip.MustParseAddr(cfg.Addr).As4()
	attrs = append(attrs, wEncodeAttr(0x40, 3, nh[:])...)
	if isIBGPKind(cfg.Kind) {
		attrs = append(attrs, wEncodeAttr(0x40, 5, u32b(100))...)
	}
	body := []byte{0, 0, byte(len(attrs) >> 8), byte(len(attrs))}
	body = append(body, attrs...)
	if pathID >= 0 {
		body = append(body, u32b(uint32(pathID))...)
	}
	body = append(body, wEncodePrefix(netip.MustParsePrefix(prefix))...)
	return append(wHeader(wUpdate, len(body)), body...)
}

// ---------------------------------------------------------------- the model

func (st *vsFsmModel) expectNothing() {}

// settle lets gobgp react to a stimulus without letting any timer of interest expire.
func fsmSettle() {
	time.Sleep(20 * time.Millisecond)
	synctest.Wait()
}

// observe returns the messages received on the current connection since the last call and whether
// the connection is closed.
func (st *vsFsmModel) observe() ([]rawMsg, bool) {
	if st.sess == nil {
		return nil, true
	}
	rx, closed, _ := st.sess.snapshot()
	n := rx[st.obs:]
	st.obs = len(rx)
	return n, closed
}

func msgsString(l []rawMsg) string {
	var s []string
	for _, m := range l {
		s = append(s, m.String())
	}
	return "[" + strings.Join(s, " ") + "]"
}

type expMsg struct {
	Type uint8
	Code uint8
	Sub  uint8
	At   time.Duration // <0: any instant
}

func (e expMsg) String() string {
	r := rawMsg{At: e.At, Type: e.Type, Code: e.Code, Sub: e.Sub}
	return r.String()
}

// expect compares what arrived since the last stimulus with the model's prediction.  KEEPALIVEs
// that the model schedules (kaNext) are accounted for by timeAdvance, so they appear in exp too.
func (w *simWorld) fsmExpect(st *vsFsmModel, what string, exp []expMsg, wantClosed bool) {
	got, closed := st.observe()
	ok := len(got) == len(exp)
	if ok {
		for i := range exp {
			if got[i].Type != exp[i].Type || got[i].Code != exp[i].Code || got[i].Sub != exp[i].Sub {
				ok = false
			}
			if exp[i].At >= 0 && got[i].At != exp[i].At {
				ok = false
			}
		}
	}
	var es []string
	for _, e := range exp {
		es = append(es, e.String())
	}
	if !ok {
		if st.negoProbe {
			// the response to a probe of the negotiated options (message size, path identifiers):
			// parsing under exactly the negotiated options is C08's (and C05's) business
			w.violate("C08", "negotiated-options", fmt.Sprintf("%s in %s", what, st.state), fmt.Sprintf("after %s in state %s the neighbour received %s, under the options negotiated for this session it must be [%s]", what, st.state, msgsString(got), strings.Join(es, " ")))
			return
		}
		w.violate("C07", "fsm-response", fmt.Sprintf("%s in %s", what, st.state), fmt.Sprintf("after %s in state %s the neighbour received %s, the RFC 4271 state machine prescribes [%s]", what, st.state, msgsString(got), strings.Join(es, " ")))
		return
	}
	if st.sess != nil && closed != wantClosed {
		w.violate("C07", "fsm-connection", fmt.Sprintf("%s in %s", what, st.state), fmt.Sprintf("after %s in state %s connection closed=%v, expected closed=%v", what, st.state, closed, wantClosed))
	}
}

// toIdle: the session ended at instant t.
func (st *vsFsmModel) toIdle(t time.Duration, hold time.Duration) {
	prev := st.state
	st.state = "idle"
	st.lenient = ""
	if st.sess != nil && st.sess.dir == "out" && prev == "opensent" {
		// the OPEN exchange of an outbound connection is run by the connection manager while
		// the session itself is reported Active; on failure it simply dials again
		st.state = "active"
		hold = 0
	}
	if st.sess != nil {
		st.dead = append(st.dead, st.sess)
	}
	st.sess = nil
	st.obs = 0
	st.holdAt, st.kaNext, st.kaEvery = 0, 0, 0
	st.idleTill = t + hold
}

const idleHold = 5 * time.Second

// catchUp moves the model over the virtual time that passed (timers that fire by themselves).
func (w *simWorld) fsmCatchUp(st *vsFsmModel) {
	now := w.now()
	for {
		// next timer event
		var next time.Duration
		kind := ""
		if st.state == "idle" && st.admin && st.idleTill <= now {
			st.state = "active"
			continue
		}
		if st.holdAt != 0 && st.holdAt <= now {
			next, kind = st.holdAt, "hold"
		}
		if st.kaNext != 0 && st.kaNext <= now && (kind == "" || st.kaNext < next) {
			next, kind = st.kaNext, "ka"
		} else if kind == "hold" && st.kaNext == next && st.sess != nil {
			// both timers are due at the same instant: either order is legal
			rx, _, _ := st.sess.snapshot()
			if st.obs < len(rx) && rx[st.obs].Type == wKeepalive {
				kind = "ka"
			}
		}
		if kind == "" {
			return
		}
		switch kind {
		case "ka":
			w.fsmExpectAt(st, expMsg{Type: wKeepalive, At: next})
			st.kaNext += st.kaEvery
		case "hold":
			w.fsmExpectAt(st, expMsg{Type: wNotification, Code: 4, Sub: 0, At: next})
			w.fsmClosedCheck(st, "hold timer expiry")
			w.probe("hold_expiry_" + st.state)
			st.toIdle(next, idleHold)
		}
	}
}

// fsmExpectAt consumes exactly one pending observation and compares it.
func (w *simWorld) fsmExpectAt(st *vsFsmModel, e expMsg) {
	if st.sess == nil {
		return
	}
	rx, _, _ := st.sess.snapshot()
	if st.obs >= len(rx) {
		w.violate("C07", "fsm-timer", fmt.Sprintf("%s in %s", e, st.state), fmt.Sprintf("in state %s the model expects %s but nothing (more) was received; received so far %s", st.state, e, msgsString(rx)))
		return
	}
	g := rx[st.obs]
	st.obs++
	if g.Type != e.Type || g.Code != e.Code || g.Sub != e.Sub || (e.At >= 0 && g.At != e.At) {
		w.violate("C07", "fsm-timer", fmt.Sprintf("%s in %s", expMsg{Type: e.Type, Code: e.Code, Sub: e.Sub, At: -1}, st.state), fmt.Sprintf("in state %s the model expects %s, received %s", st.state, e, g))
	}
}

func (w *simWorld) fsmClosedCheck(st *vsFsmModel, what string) {
	if st.sess == nil {
		return
	}
	_, closed, _ := st.sess.snapshot()
	if !closed {
		w.violate("C07", "fsm-connection", what, fmt.Sprintf("after %s in state %s the connection is still open", what, st.state))
	}
}

func parseCodeSub(s string) (uint8, uint8) {
	var a, b int
	fmt.Sscanf(s, "%d/%d", &a, &b)
	return uint8(a), uint8(b)
}

// ---------------------------------------------------------------- ops

func fsmOp(w *simWorld, actor int, op *Op) {
	st := w.fsm()
	cfg := st.cfg
	synctest.Wait()
	w.fsmCatchUp(st)
	send := func(b []byte) bool {
		if st.sess == nil {
			return false
		}
		_, err := st.sess.c.Write(b)
		return err == nil
	}
	gobgpHold := cfg.HoldTime
	if gobgpHold == 0 {
		gobgpHold = 90
	}
	if gobgpHold < 0 {
		gobgpHold = 0
	}
	switch op.Kind {
	case "wait":
		time.Sleep(time.Duration(op.N) * time.Millisecond)
		synctest.Wait()
		w.fsmCatchUp(st)
		// a dial may have happened meanwhile
		w.fsmAdoptOutbound(st)
	case "listen":
		w.net.setListenMode(net.JoinHostPort(cfg.Addr, "179"), op.Arg, 0)
		st.outMode = op.Arg
	case "connect":
		if cfg.Active && false {
			return
		}
		a, b := w.net.pair(&net.TCPAddr{IP: w.net.serverIP, Port: 179}, &net.TCPAddr{IP: net.ParseIP(cfg.Addr).To4(), Port: w.net.port()})
		s := w.newRawSess(b, "in")
		w.acceptCh <- net.NewSimTCPConn(a)
		fsmSettle()
		w.fsmCatchUp(st)
		rx, closed, _ := s.snapshot()
		switch {
		case !st.admin || st.state == "idle":
			// not accepting: the connection must simply be closed
			if len(rx) != 0 || !closed {
				w.violate("C07", "fsm-response", "connect in "+st.state, fmt.Sprintf("inbound connection while %s (admin up=%v): received %s closed=%v, expected to be closed without a message", st.state, st.admin, msgsString(rx), closed))
			}
			b.Close()
		case st.state == "active":
			st.sess, st.obs = s, 0
			w.fsmExpect(st, "inbound connection", []expMsg{{Type: wOpen, At: -1}}, false)
			if len(rx) > 0 && rx[0].Type == wOpen {
				st.gobgpOpen = rx[0].Open
				w.checkGobgpOpen(st, rx[0].Open)
			}
			st.state = "opensent"
			st.openAt = w.now()
			st.holdAt = st.openAt - 20*time.Millisecond + 240*time.Second
			w.probe("opensent")
		default:
			// already on a connection: a second one is closed (collision handling keeps the existing
			// one unless the states allow resolution; gobgp closes it in every state but Active)
			if len(rx) != 0 || !closed {
				w.probe("second_conn_not_closed")
				if st.state == "established" || st.state == "openconfirm" {
					w.violate("C07", "fsm-response", "connect in "+st.state, fmt.Sprintf("second inbound connection in %s: received %s closed=%v", st.state, msgsString(rx), closed))
				}
			}
			b.Close()
		}
	case "open", "openagain":
		if st.sess == nil {
			return
		}
		o := openSpec{Kind: op.Arg, Hold: op.N, Families: []string{"ipv4-unicast"}, AS: cfg.AS}
		if op.Kind == "openagain" {
			o.Kind, o.Hold = "valid", 90
		}
		for _, f := range strings.Split(op.Arg2, ",") {
			switch {
			case f == "noas4":
				o.NoAS4 = true
			case f == "nomp":
				o.NoMP = true
			case f == "extmsg":
				o.ExtMsg = true
			case strings.HasPrefix(f, "addpath"):
				fmt.Sscanf(f, "addpath%d", &o.AddPath)
			case f == "dupcaps":
				o.DupCaps = true
			case f == "unknowncap":
				o.Unknown = true
			case f == "v6":
				o.Families = append(o.Families, "ipv6-unicast")
			case f == "apextra":
				o.APExtra = true
			}
		}
		if o.NoAS4 && o.AS > 65535 {
			o.NoAS4 = false
		}
		if !send(w.buildOpenSpec(cfg, o)) {
			return
		}
		t := w.now()
		fsmSettle()
		switch st.state {
		case "opensent":
			switch o.Kind {
			case "valid":
				if o.Hold == 1 || o.Hold == 2 {
					w.fsmExpect(st, "OPEN hold "+fmt.Sprint(o.Hold), []expMsg{{Type: wNotification, Code: 2, Sub: 6, At: t}}, true)
					st.toIdle(t, idleHold)
					return
				}
				w.fsmExpect(st, "valid OPEN", []expMsg{{Type: wKeepalive, At: t}}, false)
				st.state = "openconfirm"
				st.peerOpen = o
				neg := gobgpHold
				if o.Hold < neg {
					neg = o.Hold
				}
				st.negHold = neg
				st.holdAt, st.kaNext, st.kaEvery = 0, 0, 0
				if neg > 0 {
					st.holdAt = t + time.Duration(neg)*time.Second
					st.kaEvery = w.fsmKeepalive(cfg, neg, gobgpHold)
					st.kaNext = t + st.kaEvery
				}
				w.probe("openconfirm")
			case "badversion":
				w.fsmExpect(st, "OPEN bad version", []expMsg{{Type: wNotification, Code: 2, Sub: 1, At: t}}, true)
				st.toIdle(t, idleHold)
			case "badas":
				w.fsmExpect(st, "OPEN bad peer AS", []expMsg{{Type: wNotification, Code: 2, Sub: 2, At: t}}, true)
				st.toIdle(t, idleHold)
			case "badid":
				w.fsmExpect(st, "OPEN bad identifier", []expMsg{{Type: wNotification, Code: 2, Sub: 3, At: t}}, true)
				st.toIdle(t, idleHold)
			case "hold1", "hold2":
				w.fsmExpect(st, "OPEN unacceptable hold time", []expMsg{{Type: wNotification, Code: 2, Sub: 6, At: t}}, true)
				st.toIdle(t, idleHold)
			case "unsupparam":
				// RFC 4271 6.2: an unrecognised Optional Parameter MUST be answered with
				// OPEN Message Error / Unsupported Optional Parameter.  If the speaker accepts the
				// OPEN instead, report it and follow it, so that the rest of the run stays checkable.
				rx, _, _ := st.sess.snapshot()
				if st.obs < len(rx) && rx[st.obs].Type == wKeepalive {
					w.violate("C07", "fsm-response", "OPEN unsupported optional parameter in opensent", fmt.Sprintf("an OPEN carrying an unrecognised optional parameter (type 9) was accepted (%s); RFC 4271 6.2 prescribes NOTIFICATION(2/4)", rx[st.obs]))
					st.obs++
					st.state = "openconfirm"
					st.peerOpen = o
					neg := gobgpHold
					if o.Hold < neg {
						neg = o.Hold
					}
					st.negHold = neg
					st.holdAt, st.kaNext, st.kaEvery = 0, 0, 0
					if neg > 0 {
						st.holdAt = t + time.Duration(neg)*time.Second
						st.kaEvery = w.fsmKeepalive(cfg, neg, gobgpHold)
						st.kaNext = t + st.kaEvery
					}
					w.probe("open_unsupparam_accepted")
					return
				}
				w.fsmExpect(st, "OPEN unsupported optional parameter", []expMsg{{Type: wNotification, Code: 2, Sub: 4, At: t}}, true)
				st.toIdle(t, idleHold)
			}
			w.probe("open_" + o.Kind)
		case "openconfirm":
			// RFC 6608: unexpected message in OpenConfirm -> FSM Error subcode 2
			w.fsmExpect(st, "OPEN", []expMsg{{Type: wNotification, Code: 5, Sub: 2, At: t}}, true)
			st.toIdle(t, idleHold)
			w.probe("unexpected_in_openconfirm")
		case "established":
			// RFC 6608: unexpected message in Established -> FSM Error subcode 3
			w.fsmExpect(st, "OPEN", []expMsg{{Type: wNotification, Code: 5, Sub: 3, At: t}}, true)
			st.toIdle(t, idleHold)
			w.probe("open_in_established")
		}
	case "ka", "update", "rr":
		if st.sess == nil {
			return
		}
		var b []byte
		name := "KEEPALIVE"
		switch op.Kind {
		case "ka":
			b = keepaliveBytes()
		case "update":
			as2 := st.peerOpen.NoAS4
			b = simpleUpdate(cfg, "10.9.0.0/24", as2, -1)
			name = "UPDATE"
		case "rr":
			b = buildRouteRefresh(famV4)
			name = "ROUTE-REFRESH"
		}
		before := w.ribCount()
		if !send(b) {
			return
		}
		t := w.now()
		fsmSettle()
		switch st.state {
		case "opensent":
			// RFC 6608: unexpected message in OpenSent -> FSM Error subcode 1
			w.fsmExpect(st, name, []expMsg{{Type: wNotification, Code: 5, Sub: 1, At: t}}, true)
			st.toIdle(t, idleHold)
			w.probe("unexpected_in_opensent")
		case "openconfirm":
			if op.Kind == "ka" {
				w.fsmExpect(st, name, nil, false)
				st.state = "established"
				st.estCount++
				if st.negHold > 0 {
					st.holdAt = t + time.Duration(st.negHold)*time.Second
					// the keepalive timer restarts when the session is established
					st.kaNext = t + st.kaEvery
				}
				w.probe("established")
			} else {
				w.fsmExpect(st, name, []expMsg{{Type: wNotification, Code: 5, Sub: 2, At: t}}, true)
				st.toIdle(t, idleHold)
				w.probe("unexpected_in_openconfirm")
			}
		case "established":
			w.fsmExpect(st, name, nil, false)
			if st.negHold > 0 && op.Kind != "rr" {
				st.holdAt = t + time.Duration(st.negHold)*time.Second
			}
			if op.Kind == "update" {
				w.probe("update_in_established")
			}
		}
		if st.state != "established" && op.Kind == "update" {
			if after := w.ribCount(); after != before {
				w.violate("C07", "rib-changed-outside-established", name, fmt.Sprintf("an UPDATE received in state %s changed the RIB (%d -> %d paths)", st.state, before, after))
			}
		}
	case "notif":
		if st.sess == nil {
			return
		}
		c, s := parseCodeSub(op.Arg)
		if !send(notificationBytes(c, s, nil)) {
			return
		}
		t := w.now()
		fsmSettle()
		if st.state == "opensent" && !(c == 2 && s == 1) {
			// RFC 4271 8.2.2 OpenSent: NotifMsg (Event 25) is "any other event": FSM Error
			w.fsmExpect(st, "NOTIFICATION", []expMsg{{Type: wNotification, Code: 5, Sub: 1, At: t}}, true)
		} else {
			w.fsmExpect(st, "NOTIFICATION", nil, true)
		}
		st.toIdle(t, idleHold)
		w.probe("notification_received")
	case "garbage":
		if st.sess == nil {
			return
		}
		h := wHeader(wKeepalive, 0)
		code, sub := uint8(1), uint8(1)
		switch op.Arg {
		case "marker":
			h[3] = 0
			sub = 1
		case "short":
			binary.BigEndian.PutUint16(h[16:], 18)
			sub = 2
		case "long":
			binary.BigEndian.PutUint16(h[16:], 4097)
			sub = 2
		case "type":
			h[18] = 9
			sub = 3
		}
		if !send(h) {
			return
		}
		t := w.now()
		fsmSettle()
		w.fsmExpect(st, "bad header ("+op.Arg+")", []expMsg{{Type: wNotification, Code: code, Sub: sub, At: t}}, true)
		st.toIdle(t, idleHold)
		w.probe("garbage_" + op.Arg)
	case "close", "reset":
		if st.sess == nil {
			return
		}
		if op.Kind == "reset" {
			w.net.resetPair(st.sess.c)
			w.net.stats.fire("conn_reset")
		} else {
			st.sess.c.Close()
		}
		t := w.now()
		fsmSettle()
		got, _ := st.observe()
		if len(got) != 0 {
			w.violate("C07", "fsm-response", op.Kind+" in "+st.state, fmt.Sprintf("after the neighbour closed the connection gobgp still sent %s", msgsString(got)))
		}
		wasOpenSent := st.state == "opensent"
		st.toIdle(t, idleHold)
		if wasOpenSent && st.state == "idle" {
			st.lenient = "active" // RFC 4271: TcpConnectionFails in OpenSent goes to Active
		}
		w.probe("remote_" + op.Kind)
	case "disable", "shutdown":
		var err error
		if op.Kind == "disable" {
			err = w.s.DisablePeer(context.Background(), &api.DisablePeerRequest{Address: cfg.Addr})
		} else {
			err = w.s.ShutdownPeer(context.Background(), &api.ShutdownPeerRequest{Address: cfg.Addr})
		}
		t := w.now()
		fsmSettle()
		w.logf("%s: %v", op.Kind, err)
		if op.Kind == "disable" && !st.admin {
			return
		}
		switch st.state {
		case "established":
			w.fsmExpect(st, op.Kind, []expMsg{{Type: wNotification, Code: 6, Sub: 2, At: t}}, true)
			st.toIdle(t, idleHold)
		case "opensent", "openconfirm":
			if op.Kind == "disable" {
				got, closed := st.observe()
				// RFC 4271: ManualStop in OpenSent/OpenConfirm sends a Cease NOTIFICATION
				if !closed {
					w.violate("C07", "fsm-connection", op.Kind+" in "+st.state, "connection still open after administrative disable")
				}
				_ = got
				st.toIdle(t, idleHold)
			}
		}
		if op.Kind == "disable" {
			st.admin = false
			if st.state == "active" {
				st.state = "idle"
			}
			w.probe("admin_disable")
		} else if op.Kind == "shutdown" {
			w.probe("admin_shutdown")
		}
	case "enable":
		err := w.s.EnablePeer(context.Background(), &api.EnablePeerRequest{Address: cfg.Addr})
		fsmSettle()
		w.logf("enable: %v", err)
		if !st.admin {
			st.admin = true
			w.probe("admin_enable")
		}
		// (re)enabling restarts the idle hold timer; how long a speaker stays in Idle is its own
		// choice (RFC 4271 IdleHoldTimer is optional), the model only needs a consistent bound
		if st.state == "idle" {
			st.idleTill = w.now() - 20*time.Millisecond + idleHold
		}
	case "resetpeer":
		err := w.s.ResetPeer(context.Background(), &api.ResetPeerRequest{Address: cfg.Addr})
		t := w.now()
		fsmSettle()
		w.logf("reset: %v", err)
		if st.state == "established" {
			w.fsmExpect(st, "administrative reset", []expMsg{{Type: wNotification, Code: 6, Sub: 4, At: t}}, true)
			st.toIdle(t, idleHold)
			w.probe("admin_reset")
		}
	case "prefixlimit":
		// not modelled in this script family version
	case "negocheck", "bigupdate", "apupdate":
		w.fsmNegoOp(st, op)
	default:
		w.harnessError("fsm: unknown op %s", op.Kind)
	}
}

// fsmKeepalive: keepalive interval the statement prescribes (a third of the negotiated hold time
// unless the configured one applies, i.e. when the negotiated hold time is the configured one).
func (w *simWorld) fsmKeepalive(cfg *PeerCfg, neg, configured int) time.Duration {
	if neg == configured {
		return time.Duration(configured/3) * time.Second
	}
	return time.Duration(neg/3) * time.Second
}

func (w *simWorld) fsmAdoptOutbound(st *vsFsmModel) {
	st.mu.Lock()
	pend := st.pendOut
	st.pendOut = nil
	st.mu.Unlock()
	for _, s := range pend {
		rx, closed, _ := s.snapshot()
		if st.sess == nil && st.state == "active" && !closed && len(rx) > 0 && rx[0].Type == wOpen {
			st.sess, st.obs = s, 1
			st.state = "opensent"
			st.gobgpOpen = rx[0].Open
			st.holdAt = rx[0].At + 240*time.Second
			st.openAt = rx[0].At
			w.probe("opensent_outbound")
			continue
		}
		if !closed {
			s.c.Close()
		}
	}
}

func (w *simWorld) ribCount() int {
	n := 0
	g, err := w.listPaths(api.TableType_TABLE_TYPE_GLOBAL, "", famV4, false)
	if err != nil {
		return -1
	}
	for _, l := range g {
		n += len(l)
	}
	return n
}

var sessStateName = map[api.PeerState_SessionState]string{
	api.PeerState_SESSION_STATE_IDLE: "idle", api.PeerState_SESSION_STATE_CONNECT: "connect", api.PeerState_SESSION_STATE_ACTIVE: "active",
	api.PeerState_SESSION_STATE_OPENSENT: "opensent", api.PeerState_SESSION_STATE_OPENCONFIRM: "openconfirm", api.PeerState_SESSION_STATE_ESTABLISHED: "established",
}

// fsmCheck: the state reported through the API equals the model's (C07 last clause).
func fsmCheck(w *simWorld, phase int) {
	st := w.fsm()
	synctest.Wait()
	w.fsmCatchUp(st)
	w.fsmAdoptOutbound(st)
	ps := w.listPeers()[st.cfg.Addr]
	w.mu.Lock()
	w.checks++
	w.nonEmpty++
	w.mu.Unlock()
	if ps == nil {
		w.violate("C07", "reported-state", "ListPeer", "neighbour missing from ListPeer")
		return
	}
	got := sessStateName[ps.State]
	want := st.state
	if st.cfg.Active && st.outMode != "" && st.outMode != "accept" {
		// the model does not track every refused/timed-out dial attempt; Active covers them
	}
	ok := got == want || (st.lenient != "" && got == st.lenient)
	if st.cfg.Active && (want == "active" || want == "opensent") && (got == "active" || got == "opensent") {
		ok = true // a dial may be in flight
	}
	if !ok {
		w.violate("C07", "reported-state", fmt.Sprintf("model=%s", want), fmt.Sprintf("ListPeer reports session state %s, the event history leads to %s", got, want))
	}
	adminUp := ps.Admin == api.PeerState_ADMIN_STATE_UP
	if adminUp != st.admin {
		w.violate("C07", "reported-admin-state", fmt.Sprintf("model admin up=%v", st.admin), fmt.Sprintf("ListPeer reports admin state %s", ps.Admin))
	}
	// every connection the model considers finished must have been closed by gobgp
	for _, s := range st.dead {
		if _, closed, _ := s.snapshot(); !closed {
			w.violate("C07", "fsm-connection", "finished session", "a connection of a finished session is still open")
		}
	}
	w.addStateFP(want, fmt.Sprint(st.admin), fmt.Sprint(st.estCount))
}
