package server

// Family "reset" (C15): soft reset / route refresh after a policy change must leave the Loc-RIB and
// every peer's view as if the new policy had been in force from the start.  Metamorphic: run A
// applies history H under policy P0, switches to P1 and issues the corresponding soft reset while
// other peers keep changing routes; run B starts with P1 and applies the same H.  The final
// canonical dumps must be equal; a second, identical reset must change no view.

import (
	"context"
	"encoding/json"
	"fmt"
	"sort"
	"strings"

	"github.com/osrg/gobgp/v4/api"
)

type resetExtra struct {
	P0Import string   `json:"p0_import,omitempty"`
	P0Export string   `json:"p0_export,omitempty"`
	P1Import string   `json:"p1_import,omitempty"`
	P1Export string   `json:"p1_export,omitempty"`
	Variant  string   `json:"variant,omitempty"` // "" -> run both; "A" | "B"
	Refresh  bool     `json:"refresh,omitempty"` // the peers ask with ROUTE-REFRESH instead of an operator soft reset out
	Edit     *setEdit `json:"edit,omitempty"`    // instead of another assignment: a defined set of the assigned policy is edited in place
}

// setEdit: members removed from / added to the prefix set or community set of a policy.
type setEdit struct {
	Policy string   `json:"policy"`
	Kind   string   `json:"kind"` // comm | prefix
	Remove []string `json:"remove,omitempty"`
	Add    []string `json:"add,omitempty"`
	// Replace: the edit is applied as ONE AddDefinedSet(replace=true) carrying the final members
	Replace bool     `json:"replace,omitempty"`
	Final   []string `json:"final,omitempty"`
}

// resetEditedPolicies: variant B (fresh evaluation) creates the sets with their FINAL members.
func resetEditedPolicies(sc *Script) []PolicyCfg {
	ex := sc.resetExtra()
	if ex.Variant != "B" || ex.Edit == nil {
		return sc.Policies
	}
	out := append([]PolicyCfg(nil), sc.Policies...)
	without := func(l []string, rm []string) []string {
		var r []string
		for _, x := range l {
			if !hasString(rm, x) {
				r = append(r, x)
			}
		}
		return r
	}
	for i := range out {
		if out[i].Name != ex.Edit.Policy {
			continue
		}
		p := out[i]
		if ex.Edit.Kind == "prefix" {
			p.Prefixes = append(without(p.Prefixes, ex.Edit.Remove), ex.Edit.Add...)
		} else {
			all := append(without(append([]string{p.Comm}, p.Comms...), ex.Edit.Remove), ex.Edit.Add...)
			p.Comm, p.Comms = all[0], all[1:]
		}
		out[i] = p
	}
	return out
}

func stringsWithout(l []string, rm []string) []string {
	var r []string
	for _, x := range l {
		if !hasString(rm, x) {
			r = append(r, x)
		}
	}
	return r
}

func init() {
	families["reset"] = &familyImpl{setup: resetSetup, op: resetOp, check: resetCheck}
	extraGenerators["reset"] = genReset
}

func (sc *Script) resetExtra() resetExtra {
	var e resetExtra
	if len(sc.Extra) > 0 {
		_ = json.Unmarshal(sc.Extra, &e)
	}
	return e
}

type resetState struct {
	ex       resetExtra
	snap1    string
	switched bool
}

func resetSetup(w *simWorld) error {
	ex := w.sc.resetExtra()
	w.fam = &resetState{ex: ex}
	imp, exp := ex.P0Import, ex.P0Export
	if ex.Variant == "B" {
		imp, exp = ex.P1Import, ex.P1Export
	}
	if err := w.assignPolicy("import", imp); err != nil {
		return err
	}
	return w.assignPolicy("export", exp)
}

func genReset(seed uint64, tier, mode string) *Script {
	g := newGen(seed)
	sc := &Script{Family: "reset", Mode: mode, Seed: seed}
	sc.SchedSeed = g.u64() | 1
	sc.YieldN = pick(g, yieldChoices)
	sc.SelShuffle = g.p(70)
	sc.Global = GlobalCfg{AS: 65000, RouterID: "10.0.0.1", AlwaysCompareMed: true}
	np := g.rng(3, 5)
	for i := 0; i < np; i++ {
		c := PeerCfg{Idx: i, Addr: peerAddr(i), RouterID: peerRID(i), Families: []string{"ipv4-unicast"}}
		switch g.n(4) {
		case 0:
			c.Kind, c.AS = "ibgp", 65000
		case 1:
			c.Kind, c.AS = "rrclient", 65000
		default:
			c.Kind, c.AS = "ebgp", uint32(65001+i)
			if g.p(35) {
				// graceful restart: the peer's routes are retained while its session is down, and a
				// soft reset in that window must re-evaluate them as well
				c.GR = GRCfg{Enabled: true, RestartTime: 120, Families: []string{"ipv4-unicast"}}
			}
		}
		sc.Peers = append(sc.Peers, c)
	}
	pool := []string{"10.1.0.0/24", "10.1.1.0/24", "10.1.2.0/24", "10.1.3.0/24", "10.1.4.0/24", "10.1.5.0/24"}
	mkPol := func(name string) PolicyCfg {
		p := PolicyCfg{Name: name}
		switch g.n(6) {
		case 0:
			p.Prefixes = []string{pick(g, pool), pick(g, pool)}
			p.Action = "reject"
		case 1:
			p.Neighbor = []string{sc.Peers[g.n(np)].Addr}
			p.Action = "reject"
		case 2:
			p.Comm = "^65000:1$"
			p.SetMED = int64(pick(g, []int{5, 50}))
			p.Action = "accept"
		case 3:
			p.Neighbor = []string{sc.Peers[g.n(np)].Addr}
			p.AddComm = "65000:777"
			p.Action = "accept"
		case 4:
			p.Prefixes = []string{pick(g, pool), pick(g, pool), pick(g, pool)}
			p.SetLP = int64(pick(g, []int{50, 300}))
			p.Action = "accept"
		default:
			p.Comm = "^65000:2$"
			p.Action = "reject"
		}
		return p
	}
	for i := 0; i < 4; i++ {
		sc.Policies = append(sc.Policies, mkPol(fmt.Sprintf("pol%d", i)))
	}
	pickPol := func() string {
		if g.p(25) {
			return ""
		}
		return fmt.Sprintf("pol%d", g.n(4))
	}
	ex := resetExtra{}
	switch g.n(4) {
	case 3: // the assignment stays, a defined set it uses is edited in place
		name := "poledit"
		p := PolicyCfg{Name: name, Action: pick(g, []string{"reject", "reject", "accept"})}
		ed := &setEdit{Policy: name}
		if g.p(50) {
			ed.Kind = "comm"
			// every pattern form gobgp compiles differently: exact value, per-AS bitmap, any-AS
			// bitmap and the general regular expression
			patFor := func(k int) string {
				return fmt.Sprintf(pick(g, []string{"^65000:%d$", "^65000:%d$", "^65000:[%d]$", "^\\d+:%d$", "^6500[0-9]:%d$", "^(65000|64999):%d$"}), k)
			}
			pats := []string{patFor(1), patFor(2), patFor(3)}
			p.Comm, p.Comms = pats[0], pats[1:1+g.n(2)]
			if g.p(60) {
				ed.Remove = []string{pick(g, append([]string{p.Comm}, p.Comms...))}
				if len(p.Comms) == 0 {
					p.Comms = []string{pats[2]} // never empty the set
				}
			} else {
				ed.Add = []string{pats[2]}
			}
			if p.Action == "accept" {
				p.SetMED = 55
			}
		} else {
			ed.Kind = "prefix"
			p.Prefixes = []string{pool[0], pool[1], pool[2]}
			if g.p(60) {
				ed.Remove = []string{pick(g, p.Prefixes)}
			} else {
				ed.Add = []string{pool[4]}
			}
			if p.Action == "accept" {
				p.SetLP = 300
			}
		}
		if g.p(30) {
			ed.Replace = true
			if ed.Kind == "prefix" {
				ed.Final = append(stringsWithout(p.Prefixes, ed.Remove), ed.Add...)
			} else {
				ed.Final = append(stringsWithout(append([]string{p.Comm}, p.Comms...), ed.Remove), ed.Add...)
			}
		}
		sc.Policies = append(sc.Policies, p)
		ex.Edit = ed
		if g.p(50) {
			ex.P0Import, ex.P1Import = name, name
			ex.P0Export = pickPol()
			ex.P1Export = ex.P0Export
		} else {
			ex.P0Export, ex.P1Export = name, name
			ex.P0Import = pickPol()
			ex.P1Import = ex.P0Import
			ex.Refresh = g.p(30)
		}
	case 0: // import changes
		ex.P0Import, ex.P1Import = pickPol(), pickPol()
		ex.P0Export = pickPol()
		ex.P1Export = ex.P0Export
	case 1: // export changes
		ex.P0Export, ex.P1Export = pickPol(), pickPol()
		ex.P0Import = pickPol()
		ex.P1Import = ex.P0Import
		ex.Refresh = g.p(40)
	default:
		ex.P0Import, ex.P1Import, ex.P0Export, ex.P1Export = pickPol(), pickPol(), pickPol(), pickPol()
	}
	b, _ := json.Marshal(ex)
	sc.Extra = b
	serial := 0
	mkAnn := func(c *PeerCfg) Op {
		serial++
		a := &AttrSpec{Origin: g.n(3), MED: -1, LocalPref: -1, NextHop: c.Addr}
		var path []uint32
		if !isIBGPKind(c.Kind) {
			path = append(path, c.AS)
		}
		for k := g.n(3); k > 0; k-- {
			path = append(path, pick(g, []uint32{65010, 65020, 65030}))
		}
		if len(path) > 0 {
			a.ASPath = []asSeg{{2, path}}
		}
		if g.p(50) {
			a.MED = int64(pick(g, []int{0, 10, 20}))
		}
		if isIBGPKind(c.Kind) {
			a.LocalPref = int64(pick(g, []int{100, 100, 200}))
		}
		for k := g.n(3); k > 0; k-- {
			a.Comms = append(a.Comms, uint32(65000)<<16|uint32(g.rng(1, 3)))
		}
		return Op{Kind: "ann", Actor: c.Idx, Family: "ipv4-unicast", Prefix: pick(g, pool), Attrs: a, Tag: mkTag(c.Idx, serial), Delay: g.n(3) * 400}
	}
	mkWd := func(c *PeerCfg) Op {
		return Op{Kind: "wd", Actor: c.Idx, Family: "ipv4-unicast", Prefix: pick(g, pool)}
	}
	var p0 Phase
	for i := range sc.Peers {
		p0.Ops = append(p0.Ops, Op{Kind: "up", Actor: i})
		for k := g.rng(1, 4); k > 0; k-- {
			p0.Ops = append(p0.Ops, mkAnn(&sc.Peers[i]))
		}
	}
	p0.Settle = 8
	history := func(n int) []Op {
		var l []Op
		for k := 0; k < n; k++ {
			c := &sc.Peers[g.n(np)]
			if g.p(70) {
				l = append(l, mkAnn(c))
			} else {
				l = append(l, mkWd(c))
			}
		}
		return l
	}
	p1 := Phase{Ops: history(g.rng(2, 8)), Settle: 8}
	// the change + the reset, concurrent with more route changes
	p2 := Phase{Settle: 10}
	sw := Op{Kind: "switchpolicy", Actor: -1}
	for i := range sc.Peers {
		if sc.Peers[i].GR.Enabled && g.p(60) {
			// the session is lost (transport failure) just before the policy changes and stays down
			p2.Ops = append(p2.Ops, Op{Kind: "down", Actor: i, Arg: pick(g, []string{"reset", "close"})})
			sw.Delay = 1500
		}
	}
	p2.Ops = append(p2.Ops, sw)
	if g.p(60) {
		p2.Ops = append(p2.Ops, history(g.rng(1, 6))...)
	}
	p3 := Phase{Ops: []Op{{Kind: "snap", Actor: -1}, {Kind: "againreset", Actor: -1}}, Settle: 8, Check: true}
	sc.Phases = []Phase{p0, p1, p2, p3}
	sc.Final = "stop"
	return sc
}

func (w *simWorld) resetAll(ex resetExtra) {
	imp := ex.P0Import != ex.P1Import
	exp := ex.P0Export != ex.P1Export
	if ex.Edit != nil {
		imp = imp || ex.P1Import == ex.Edit.Policy
		exp = exp || ex.P1Export == ex.Edit.Policy
	}
	if exp && ex.Refresh {
		// the peers ask themselves
		for _, p := range w.peers {
			p.write(buildRouteRefresh(famV4))
		}
		w.probe("route_refresh_sent")
		exp = false
	}
	d := api.ResetPeerRequest_DIRECTION_BOTH
	switch {
	case imp && !exp:
		d = api.ResetPeerRequest_DIRECTION_IN
	case exp && !imp:
		d = api.ResetPeerRequest_DIRECTION_OUT
	case !imp && !exp:
		return
	}
	err := w.s.ResetPeer(context.Background(), &api.ResetPeerRequest{Address: "all", Soft: true, Direction: d})
	w.logf("soft reset all dir=%v: %v", d, err)
	w.probe("soft_reset")
}

func resetOp(w *simWorld, actor int, op *Op) {
	st := w.fam.(*resetState)
	switch op.Kind {
	case "switchpolicy":
		if st.ex.Variant == "B" {
			return
		}
		if err := w.assignPolicy("import", st.ex.P1Import); err != nil {
			w.harnessError("assign import: %v", err)
		}
		if err := w.assignPolicy("export", st.ex.P1Export); err != nil {
			w.harnessError("assign export: %v", err)
		}
		if st.ex.Edit != nil {
			if err := w.editDefinedSet(st.ex.Edit); err != nil {
				w.harnessError("edit defined set: %v", err)
			}
			w.probe("defined_set_edited_" + st.ex.Edit.Kind)
		}
		w.resetAll(st.ex)
		st.switched = true
	case "snap":
		if st.ex.Variant == "B" {
			return
		}
		st.snap1 = w.viewsDump()
	case "againreset":
		if st.ex.Variant == "B" {
			return
		}
		w.resetAll(st.ex)
	default:
		worldOp(w, actor, op)
	}
}

// viewsDump: canonical text of what every established peer holds.
func (w *simWorld) viewsDump() string {
	var l []string
	for _, p := range w.peers {
		if !p.isUp() {
			l = append(l, fmt.Sprintf("p%d down", p.cfg.Idx))
			continue
		}
		view, keys := p.snapshotView()
		for _, k := range keys {
			l = append(l, fmt.Sprintf("p%d %s t%x {%s}", p.cfg.Idx, k, view[k].Tag, normalizeObserved(view[k].Attrs)))
		}
	}
	sort.Strings(l)
	return strings.Join(l, "\n")
}

func (w *simWorld) ribDump() string {
	var l []string
	glob, err := w.listPaths(api.TableType_TABLE_TYPE_GLOBAL, "", famV4, false)
	if err != nil {
		return "error: " + err.Error()
	}
	for _, k := range sortedKeys(glob) {
		for i, rp := range glob[k] {
			l = append(l, fmt.Sprintf("rib %s #%d from=%s id=%d t%x {%s}", k, i, rp.Src, rp.RemoteID, rp.Tag, rp.Attrs))
		}
	}
	return strings.Join(l, "\n")
}

func resetCheck(w *simWorld, phase int) {
	st := w.fam.(*resetState)
	w.mu.Lock()
	w.checks++
	w.nonEmpty++
	w.mu.Unlock()
	if st.ex.Variant != "B" && st.snap1 != "" {
		now := w.viewsDump()
		if now != st.snap1 {
			w.violate("C15", "repeated-reset-changes-views", "second identical soft reset", "views before:\n"+diffLines(st.snap1, now))
		}
	}
	if st.ex.Variant != "B" && !st.switched {
		w.harnessError("reset script without its policy switch (not a valid metamorphic pair)")
	}
	w.finalDump = w.ribDump() + "\n" + w.viewsDump()
	w.addStateFP(w.finalDump)
}

func diffLines(a, b string) string {
	am := map[string]bool{}
	for _, l := range strings.Split(a, "\n") {
		am[l] = true
	}
	bm := map[string]bool{}
	for _, l := range strings.Split(b, "\n") {
		bm[l] = true
	}
	var out []string
	for _, l := range strings.Split(a, "\n") {
		if !bm[l] {
			out = append(out, "  - "+l)
		}
	}
	for _, l := range strings.Split(b, "\n") {
		if !am[l] {
			out = append(out, "  + "+l)
		}
	}
	if len(out) > 24 {
		out = out[:24]
	}
	return strings.Join(out, "\n")
}
