package server

// Family "vpn" (C17): VRF import/export and Route Target Constraint.  PE neighbours (route
// reflector clients) exchange VPNv4 routes with generated route-target sets, optionally
// negotiate RT-Constrain and announce/withdraw memberships; CE neighbours are attached to VRFs;
// VRFs with overlapping import/export targets are added and deleted through the API and originate
// routes.  Oracle (set algebra at quiescent points): who must hold which route.

import (
	"context"
	"fmt"
	"net/netip"
	"sort"
	"strings"
	"testing/synctest"
	"time"

	"github.com/osrg/gobgp/v4/api"
	"github.com/osrg/gobgp/v4/pkg/apiutil"
	"github.com/osrg/gobgp/v4/pkg/packet/bgp"
)

func init() {
	families["vpn"] = &familyImpl{setup: vpnSetup, op: vpnOp, check: vpnCheck}
	extraGenerators["vpn"] = genVPN
}

type vrfDef struct {
	Name   string
	RD     string // "65000:N"
	Import []int
	Export []int
}

type vpnRoute struct {
	Key    string // rd:prefix
	Prefix string
	RTs    []int
	Src    string // "p<idx>" or "vrf:<name>"
	Tag    uint32
	VRF    string // set for routes originated in / exported from a VRF
	LP     int    // LOCAL_PREF (shared NLRIs announced by several PEs: the highest wins)
}

// rkey is the index of a route in vpnState.routes: the NLRI plus, for NLRIs that several
// neighbours announce, the announcing neighbour.
func rkey(key, src string, shared bool) string {
	if shared {
		return key + "@" + src
	}
	return key
}

// bestRoutes reduces the announced routes to one per NLRI (highest LOCAL_PREF; the generator
// makes them distinct), which is what a non-ADD-PATH receiver must hold.
func (st *vpnState) bestRoutes() map[string]*vpnRoute {
	best := map[string]*vpnRoute{}
	for _, r := range st.routes {
		if b := best[r.Key]; b == nil || r.LP > b.LP {
			best[r.Key] = r
		}
	}
	return best
}

type vpnState struct {
	vrfs    map[string]*vrfDef
	defs    map[string]*vrfDef
	routes  map[string]*vpnRoute // by key
	members map[int]map[int]bool // PE idx -> RTs it has announced membership for
	defMem  map[int]bool         // PE idx -> default membership announced
	serial  int
	ceVrf   map[int]string
}

func (w *simWorld) vpn() *vpnState { return w.fam.(*vpnState) }

var vpnVrfDefs = []*vrfDef{
	{"red", "65000:1", []int{1}, []int{1}},
	{"blue", "65000:2", []int{2, 1}, []int{2}},
	{"green", "65000:3", []int{3}, []int{3, 1}},
	{"grey", "65000:4", []int{1, 2, 3}, []int{4}},
}

func rtAPI(n int) *api.RouteTarget {
	return &api.RouteTarget{Rt: &api.RouteTarget_TwoOctetAsSpecific{TwoOctetAsSpecific: &api.TwoOctetAsSpecificExtended{IsTransitive: true, SubType: 0x02, Asn: 65000, LocalAdmin: uint32(n)}}}
}

func (w *simWorld) addVrf(d *vrfDef) error {
	var rdN uint32
	fmt.Sscanf(d.RD, "65000:%d", &rdN)
	v := &api.Vrf{Name: d.Name, Id: rdN, Rd: &api.RouteDistinguisher{Rd: &api.RouteDistinguisher_TwoOctetAsn{TwoOctetAsn: &api.RouteDistinguisherTwoOctetASN{Admin: 65000, Assigned: rdN}}}}
	for _, n := range d.Import {
		v.ImportRt = append(v.ImportRt, rtAPI(n))
	}
	for _, n := range d.Export {
		v.ExportRt = append(v.ExportRt, rtAPI(n))
	}
	return w.s.AddVrf(context.Background(), &api.AddVrfRequest{Vrf: v})
}

func vpnSetup(w *simWorld) error {
	st := &vpnState{vrfs: map[string]*vrfDef{}, defs: map[string]*vrfDef{}, routes: map[string]*vpnRoute{}, members: map[int]map[int]bool{}, defMem: map[int]bool{}, ceVrf: map[int]string{}}
	for _, d := range vpnVrfDefs {
		st.defs[d.Name] = d
	}
	w.fam = st
	if len(w.sc.Policies) > 0 {
		// a global import policy that modifies every route: what sits in the Loc-RIB is then a
		// modified copy of the Adj-RIB-In route, and a soft reset in replaces it by another copy
		if err := w.assignPolicy("import", w.sc.Policies[0].Name); err != nil {
			return err
		}
	}
	return nil
}

func genVPN(seed uint64, tier, mode string) *Script {
	g := newGen(seed)
	sc := &Script{Family: "vpn", Mode: mode, Seed: seed}
	sc.SchedSeed = g.u64() | 1
	sc.YieldN = pick(g, yieldChoices)
	sc.SelShuffle = g.p(70)
	sc.Global = GlobalCfg{AS: 65000, RouterID: "10.0.0.1"}
	pe := func(i int) PeerCfg {
		c := PeerCfg{Idx: i, Addr: peerAddr(i), RouterID: peerRID(i), Kind: "rrclient", AS: 65000, Families: []string{"l3vpn-ipv4-unicast"}}
		if g.p(55) {
			c.Families = append(c.Families, "rtc")
		}
		c.Late = false
		return c
	}
	sc.Peers = []PeerCfg{pe(0), pe(1)}
	softin := g.p(50)
	if softin {
		sc.Policies = []PolicyCfg{{Name: "mark", Action: "accept", AddComm: "65000:999"}}
	}
	sc.Peers = append(sc.Peers, PeerCfg{Idx: 2, Addr: peerAddr(2), RouterID: peerRID(2), Kind: "ebgp", AS: 65101, Families: []string{"ipv4-unicast"}, Vrf: "red", Late: true})
	if g.p(60) {
		sc.Peers = append(sc.Peers, PeerCfg{Idx: 3, Addr: peerAddr(3), RouterID: peerRID(3), Kind: "ebgp", AS: 65102, Families: []string{"ipv4-unicast"}, Vrf: "blue", Late: true})
	}
	// an observer PE that negotiates RT-Constrain and announces nothing but memberships
	obs := len(sc.Peers)
	sc.Peers = append(sc.Peers, PeerCfg{Idx: obs, Addr: peerAddr(obs), RouterID: peerRID(obs), Kind: "rrclient", AS: 65000, Families: []string{"l3vpn-ipv4-unicast", "rtc"}})
	nCE := obs - 2
	var ops []Op
	add := func(o Op) { o.Actor = 0; ops = append(ops, o) }
	add(Op{Kind: "addvrf", Arg: "red"})
	add(Op{Kind: "addvrf", Arg: "blue"})
	for i := range sc.Peers {
		if sc.Peers[i].Late {
			add(Op{Kind: "addpeer", Peer: i})
		}
	}
	for i := range sc.Peers {
		add(Op{Kind: "up", Peer: i})
	}
	n := g.rng(8, 26)
	if tier == "thorough" {
		n = g.rng(15, 60)
	}
	for i := 0; i < n; i++ {
		r := g.n(100)
		switch {
		case r < 10: // both PEs can announce the same NLRI (same RD): best-path hand-over between sources
			p := g.n(2)
			nrt := g.rng(1, 2)
			var rts []string
			for k := 0; k < nrt; k++ {
				rts = append(rts, fmt.Sprint(g.rng(1, 4)))
			}
			add(Op{Kind: "vpnann", Peer: p, Prefix: fmt.Sprintf("10.99.%d.0/24", g.n(2)), Arg: strings.Join(rts, ","), N: 0, Arg2: "shared"})
		case r < 14:
			add(Op{Kind: "vpnwd", Peer: g.n(2), Prefix: fmt.Sprintf("10.99.%d.0/24", g.n(2)), N: 0, Arg2: "shared"})
		case r < 30: // PE announces a VPN route
			p := g.n(2)
			nrt := g.rng(1, 2)
			var rts []string
			for k := 0; k < nrt; k++ {
				rts = append(rts, fmt.Sprint(g.rng(1, 4)))
			}
			rdv := g.n(2)
			if g.p(25) {
				// the remote PE uses the RD of one of the local VRFs ("one RD per VPN on every PE")
				rdv = 10 + g.n(4)
			}
			add(Op{Kind: "vpnann", Peer: p, Prefix: fmt.Sprintf("10.%d.%d.0/24", 10+p, vpnPfxBase(rdv)+g.n(4)), Arg: strings.Join(rts, ","), N: rdv})
		case r < 38:
			p := g.n(2)
			rdv := pick(g, []int{0, 1, 0, 1, 10, 11, 12, 13})
			add(Op{Kind: "vpnwd", Peer: p, Prefix: fmt.Sprintf("10.%d.%d.0/24", 10+p, vpnPfxBase(rdv)+g.n(4)), N: rdv})
		case r < 50: // CE announces
			ci := 2 + g.n(nCE)
			add(Op{Kind: "ceann", Peer: ci, Prefix: fmt.Sprintf("10.%d.%d.0/24", 20+ci, g.n(3))})
		case r < 55:
			ci := 2 + g.n(nCE)
			add(Op{Kind: "cewd", Peer: ci, Prefix: fmt.Sprintf("10.%d.%d.0/24", 20+ci, g.n(3))})
		case r < 68: // RTC membership
			p := pick(g, []int{0, 1, obs, obs})
			add(Op{Kind: "rtcann", Peer: p, N: g.rng(1, 4)})
		case r < 76:
			p := pick(g, []int{0, 1, obs, obs})
			add(Op{Kind: "rtcwd", Peer: p, N: g.rng(1, 4)})
		case r < 79:
			add(Op{Kind: "rtcdefault", Peer: pick(g, []int{0, 1, obs}), Arg: pick(g, []string{"ann", "wd"})})
		case r < 84:
			add(Op{Kind: "addvrf", Arg: pick(g, []string{"green", "grey"})})
		case r < 88:
			add(Op{Kind: "delvrf", Arg: pick(g, []string{"green", "grey"})})
		case r < 94:
			// plain prefixes are unique per VRF: two VPN routes with different RDs but the same
			// prefix importable into one VRF compete for one plain route at the CE, which the
			// set-algebra oracle does not model (see DESIGN.md, observation on C17)
			vi := g.n(3)
			add(Op{Kind: "vrfroute", Arg: []string{"green", "grey", "red"}[vi], Prefix: fmt.Sprintf("10.%d.%d.0/24", 30+vi, g.n(3))})
		case r < 96:
			vi := g.n(3)
			add(Op{Kind: "vrfroutedel", Arg: []string{"green", "grey", "red"}[vi], Prefix: fmt.Sprintf("10.%d.%d.0/24", 30+vi, g.n(3))})
		case r < 98:
			// another PE announces (or withdraws) exactly what a local VRF originates, and wins
			vi := g.n(3)
			rdN := []int{3, 4, 1}[vi]
			k := "vpnann"
			if g.p(35) {
				k = "vpnwd"
			}
			add(Op{Kind: k, Peer: g.n(2), Prefix: fmt.Sprintf("10.%d.%d.0/24", 30+vi, g.n(3)), Arg: fmt.Sprint(rdN), N: 9 + rdN, Arg2: "shadow"})
		default:
			p := g.n(len(sc.Peers))
			add(Op{Kind: "flap", Peer: p})
			add(Op{Kind: "up", Peer: p})
		}
		if softin && g.p(12) {
			add(Op{Kind: "softin", Peer: g.n(len(sc.Peers)), Arg: pick(g, []string{"one", "one", "all"})})
		}
		if g.p(25) {
			add(Op{Kind: "probe"})
		}
	}
	add(Op{Kind: "probe"})
	sc.Phases = []Phase{{Ops: ops, Settle: 3, Check: true}}
	sc.Final = pick(g, []string{"stop", "stopbgp"})
	return sc
}

// vpnPfxBase keeps the plain prefixes of different RDs apart (several importable VPN routes with
// one plain prefix would compete at a CE, which the set-algebra oracle does not model).
func vpnPfxBase(rdv int) int {
	if rdv >= 10 {
		return 8 + (rdv-10)*4
	}
	return rdv * 4
}

func vpnSettle() {
	time.Sleep(50 * time.Millisecond)
	synctest.Wait()
}

func rtStrings(l []int) []string {
	var s []string
	for _, n := range l {
		s = append(s, fmt.Sprintf("rt:65000:%d", n))
	}
	return s
}

func parseInts(s string) []int {
	var l []int
	for _, f := range strings.Split(s, ",") {
		var n int
		if _, err := fmt.Sscanf(f, "%d", &n); err == nil {
			l = append(l, n)
		}
	}
	return l
}

func (st *vpnState) dropSource(src string) {
	for k, r := range st.routes {
		if r.Src == src {
			delete(st.routes, k)
		}
	}
}

func vpnOp(w *simWorld, actor int, op *Op) {
	st := w.vpn()
	synctest.Wait()
	ctx := context.Background()
	switch op.Kind {
	case "addvrf":
		d := st.defs[op.Arg]
		err := w.addVrf(d)
		w.logf("AddVrf %s: %v", d.Name, err)
		if err == nil {
			st.vrfs[d.Name] = d
			w.probe("add_vrf")
		} else if st.vrfs[d.Name] == nil {
			w.violate("C17", "api", "AddVrf "+d.Name, err.Error())
		}
		vpnSettle()
	case "delvrf":
		err := w.s.DeleteVrf(ctx, &api.DeleteVrfRequest{Name: op.Arg})
		w.logf("DeleteVrf %s: %v", op.Arg, err)
		if err == nil {
			delete(st.vrfs, op.Arg)
			st.dropSource("vrf:" + op.Arg)
			w.probe("delete_vrf")
		}
		vpnSettle()
	case "addpeer":
		c := w.peers[op.Peer].cfg
		if err := w.addPeer(c); err != nil {
			w.harnessError("vpn addpeer: %v", err)
		}
		st.ceVrf[op.Peer] = c.Vrf
		vpnSettle()
	case "up":
		p := w.peers[op.Peer]
		if p.isUp() {
			return
		}
		time.Sleep(6 * time.Second)
		if r := p.connectPassive(false, 20*time.Second); !r.ok {
			w.logf("vpn: p%d connect failed: %s", op.Peer, r.reason)
			w.probe("connect_failed")
			return
		}
		if p.hasFamily(famRTC) {
			// RFC 4684: End-of-RIB for the RT membership family after the initial exchange
			p.write(buildEOR(famRTC))
		}
		vpnSettle()
	case "softin":
		addr := w.peers[op.Peer].cfg.Addr
		if op.Arg == "all" {
			addr = "all"
		}
		err := w.s.ResetPeer(context.Background(), &api.ResetPeerRequest{Address: addr, Soft: true, Direction: api.ResetPeerRequest_DIRECTION_IN})
		w.logf("soft reset in %s: %v", addr, err)
		w.probe("soft_reset_in")
		vpnSettle()
	case "flap":
		p := w.peers[op.Peer]
		if p.dropSession("reset") {
			p.waitDown(3 * time.Second)
			st.dropSource(fmt.Sprintf("p%d", op.Peer))
			delete(st.members, op.Peer)
			delete(st.defMem, op.Peer)
			w.probe("flap")
		}
		vpnSettle()
	case "vpnann":
		p := w.peers[op.Peer]
		if !p.isUp() {
			return
		}
		st.serial++
		rts := parseInts(op.Arg)
		rd := fmt.Sprintf("65000:%d", 100*(op.Peer+1)+op.N)
		if op.N >= 10 {
			rd = fmt.Sprintf("65000:%d", op.N-9) // the RD of local VRF red/blue/green/grey
			w.probe("vpn_announce_with_vrf_rd")
		}
		shared := op.Arg2 == "shared" || op.Arg2 == "shadow"
		lp := 100
		if shared {
			if op.Arg2 == "shared" {
				rd = "65000:900"
			} else {
				// "shadow": the very NLRI (RD and prefix) a local VRF originates, from another PE
				// using the same RD, with a LOCAL_PREF that beats the locally originated route
				w.probe("vpn_shadow_of_vrf_route")
			}
			lp = 100 + st.serial
		}
		src := fmt.Sprintf("p%d", op.Peer)
		spec := &AttrSpec{Origin: 0, NextHop: p.cfg.Addr, MED: -1, LocalPref: int64(lp), ExtComms: rtStrings(rts)}
		r := &annRoute{Tag: mkTag(op.Peer, st.serial), Fam: famVPN4, Prefix: op.Prefix, Spec: spec, Src: op.Peer, Label: uint32(100 + st.serial), RD: rd}
		w.mu.Lock()
		w.tags[r.Tag] = r
		w.mu.Unlock()
		if p.announce(r) {
			key := rd + ":" + op.Prefix
			if shared {
				for _, o := range st.routes {
					if o.Key == key && o.Src != src {
						w.probe("vpn_best_handover")
					}
				}
			}
			st.routes[rkey(key, src, shared)] = &vpnRoute{Key: key, Prefix: op.Prefix, RTs: rts, Src: src, Tag: r.Tag, LP: lp}
			w.probe("vpn_announce")
		}
		vpnSettle()
	case "vpnwd":
		p := w.peers[op.Peer]
		if !p.isUp() {
			return
		}
		rd := fmt.Sprintf("65000:%d", 100*(op.Peer+1)+op.N)
		if op.N >= 10 {
			rd = fmt.Sprintf("65000:%d", op.N-9)
		}
		shared := op.Arg2 == "shared" || op.Arg2 == "shadow"
		if op.Arg2 == "shared" {
			rd = "65000:900"
		}
		key := rkey(rd+":"+op.Prefix, fmt.Sprintf("p%d", op.Peer), shared)
		if st.routes[key] == nil {
			return
		}
		msg := p.buildWithdraw(famVPN4, op.Prefix, 0, 0, rd)
		p.write(msg)
		delete(st.routes, key)
		vpnSettle()
	case "ceann":
		p := w.peers[op.Peer]
		if !p.isUp() {
			return
		}
		st.serial++
		v := st.defs[p.cfg.Vrf]
		spec := &AttrSpec{Origin: 0, ASPath: []asSeg{{2, []uint32{p.cfg.AS}}}, NextHop: p.cfg.Addr, MED: -1, LocalPref: -1}
		r := &annRoute{Tag: mkTag(op.Peer, st.serial), Fam: famV4, Prefix: op.Prefix, Spec: spec, Src: op.Peer}
		w.mu.Lock()
		w.tags[r.Tag] = r
		w.mu.Unlock()
		if p.announce(r) {
			key := v.RD + ":" + op.Prefix
			st.routes[key] = &vpnRoute{Key: key, Prefix: op.Prefix, RTs: v.Export, Src: fmt.Sprintf("p%d", op.Peer), Tag: r.Tag, VRF: v.Name}
			w.probe("ce_announce")
		}
		vpnSettle()
	case "cewd":
		p := w.peers[op.Peer]
		if !p.isUp() {
			return
		}
		v := st.defs[p.cfg.Vrf]
		key := v.RD + ":" + op.Prefix
		if r := st.routes[key]; r == nil || r.Src != fmt.Sprintf("p%d", op.Peer) {
			return
		}
		p.withdraw(famV4, op.Prefix, 0)
		delete(st.routes, key)
		vpnSettle()
	case "rtcann", "rtcwd", "rtcdefault":
		p := w.peers[op.Peer]
		if !p.isUp() || !p.hasFamily(famRTC) {
			return
		}
		prefix := fmt.Sprintf("65000:rt:65000:%d", op.N)
		ann := op.Kind == "rtcann"
		if op.Kind == "rtcdefault" {
			prefix = "default"
			ann = op.Arg == "ann"
		}
		if ann {
			st.serial++
			spec := &AttrSpec{Origin: 0, NextHop: p.cfg.Addr, MED: -1, LocalPref: 100}
			r := &annRoute{Tag: mkTag(op.Peer, st.serial), Fam: famRTC, Prefix: prefix, Spec: spec, Src: op.Peer}
			if p.announce(r) {
				if prefix == "default" {
					st.defMem[op.Peer] = true
				} else {
					if st.members[op.Peer] == nil {
						st.members[op.Peer] = map[int]bool{}
					}
					st.members[op.Peer][op.N] = true
				}
				w.probe("rtc_announce")
			}
		} else {
			p.write(p.buildWithdraw(famRTC, prefix, 0, 0, ""))
			if prefix == "default" {
				delete(st.defMem, op.Peer)
			} else if st.members[op.Peer] != nil {
				delete(st.members[op.Peer], op.N)
			}
			w.probe("rtc_withdraw")
		}
		vpnSettle()
	case "vrfroute", "vrfroutedel":
		v := st.vrfs[op.Arg]
		if v == nil {
			return
		}
		st.serial++
		pf := netip.MustParsePrefix(op.Prefix)
		nl, _ := bgp.NewIPAddrPrefix(pf)
		nh, _ := bgp.NewPathAttributeNextHop(netip.MustParseAddr("10.0.0.1"))
		tag := mkTag(-1, st.serial)
		attrs := []bgp.PathAttributeInterface{bgp.NewPathAttributeOrigin(0), nh, bgp.NewPathAttributeCommunities([]uint32{tag})}
		key := v.RD + ":" + op.Prefix
		if op.Kind == "vrfroute" {
			_, err := w.s.AddPath(apiutil.AddPathRequest{VRFID: v.Name, Paths: []*apiutil.Path{{Family: bgp.RF_IPv4_UC, Nlri: nl, Attrs: attrs, Age: time.Now().Unix()}}})
			w.logf("AddPath vrf=%s %s: %v", v.Name, op.Prefix, err)
			if err == nil {
				if old := st.routes[key]; old != nil && !strings.HasPrefix(old.Src, "vrf:") {
					// a CE route with the same key exists: keep the model simple, do not compete
					_ = w.s.DeletePath(apiutil.DeletePathRequest{VRFID: v.Name, Paths: []*apiutil.Path{{Family: bgp.RF_IPv4_UC, Nlri: nl, Attrs: attrs}}})
				} else {
					r := &annRoute{Tag: tag, Fam: famV4, Prefix: op.Prefix, Spec: &AttrSpec{NextHop: "10.0.0.1", MED: -1, LocalPref: -1}, Src: -1}
					w.mu.Lock()
					w.tags[tag] = r
					w.mu.Unlock()
					st.routes[key] = &vpnRoute{Key: key, Prefix: op.Prefix, RTs: v.Export, Src: "vrf:" + v.Name, Tag: tag, VRF: v.Name}
					w.probe("vrf_originate")
				}
			}
		} else {
			if r := st.routes[key]; r != nil && r.Src == "vrf:"+v.Name {
				err := w.s.DeletePath(apiutil.DeletePathRequest{VRFID: v.Name, Paths: []*apiutil.Path{{Family: bgp.RF_IPv4_UC, Nlri: nl, Attrs: attrs}}})
				w.logf("DeletePath vrf=%s %s: %v", v.Name, op.Prefix, err)
				if err == nil {
					delete(st.routes, key)
				}
			}
		}
		vpnSettle()
	case "probe":
		vpnSettle()
		w.vpnCompare(st)
	default:
		w.harnessError("vpn: unknown op %s", op.Kind)
	}
}

func intersects(a []int, b []int) bool {
	for _, x := range a {
		for _, y := range b {
			if x == y {
				return true
			}
		}
	}
	return false
}

func (w *simWorld) vpnCompare(st *vpnState) {
	w.mu.Lock()
	w.checks++
	w.mu.Unlock()
	if len(st.routes) > 0 {
		w.mu.Lock()
		w.nonEmpty++
		w.mu.Unlock()
	}
	var fp []string
	best := st.bestRoutes()
	for _, p := range w.peers {
		if !p.isUp() {
			continue
		}
		view, _ := p.snapshotView()
		src := fmt.Sprintf("p%d", p.cfg.Idx)
		if p.cfg.Vrf != "" {
			// CE: plain routes of everything importable into its VRF
			v := st.vrfs[p.cfg.Vrf]
			want := map[string]uint32{}
			for _, r := range best {
				if r.Src != src && v != nil && intersects(r.RTs, v.Import) {
					want[r.Prefix] = r.Tag
				}
			}
			got := map[string]uint32{}
			for k, vr := range view {
				if k.Fam == famV4 {
					got[k.Key] = vr.Tag
				}
			}
			for _, pfx := range sortedKeys(want) {
				if g, ok := got[pfx]; !ok {
					w.violate("C17", "ce-missing", fmt.Sprintf("p%d vrf=%s", p.cfg.Idx, p.cfg.Vrf), fmt.Sprintf("%s (tag %x) carries a route target imported by the VRF but was not re-advertised to the attached peer", pfx, want[pfx]))
				} else if g != want[pfx] {
					w.violate("C17", "ce-wrong", fmt.Sprintf("p%d vrf=%s", p.cfg.Idx, p.cfg.Vrf), fmt.Sprintf("%s: peer holds %x expected %x", pfx, g, want[pfx]))
				}
			}
			for _, pfx := range sortedKeys(got) {
				if _, ok := want[pfx]; !ok {
					w.violate("C17", "ce-extra", fmt.Sprintf("p%d vrf=%s", p.cfg.Idx, p.cfg.Vrf), fmt.Sprintf("%s (tag %x) is held by the attached peer although no route with an imported route target exists", pfx, got[pfx]))
				}
				fp = append(fp, fmt.Sprintf("ce%d:%s:%x", p.cfg.Idx, pfx, got[pfx]))
			}
			continue
		}
		// PE: VPN routes, filtered by its RT memberships when RT-Constrain was negotiated
		rtc := p.hasFamily(famRTC)
		want := map[string]*vpnRoute{}
		for _, r := range best {
			if r.Src == src {
				continue
			}
			if rtc && !st.defMem[p.cfg.Idx] {
				ok := false
				for _, n := range r.RTs {
					if st.members[p.cfg.Idx][n] {
						ok = true
					}
				}
				if !ok {
					continue
				}
			}
			want[r.Key] = r
		}
		got := map[string]*viewRoute{}
		for k, vr := range view {
			if k.Fam == famVPN4 {
				got[k.Key] = vr
			}
		}
		subj := fmt.Sprintf("p%d rtc=%v", p.cfg.Idx, rtc)
		for _, key := range sortedKeys(want) {
			r := want[key]
			g := got[key]
			if g == nil {
				w.violate("C17", "pe-missing", subj, fmt.Sprintf("VPN route %s (tag %x, targets %v, from %s) must be advertised to the peer (memberships %v default=%v)", key, r.Tag, r.RTs, r.Src, memberList(st.members[p.cfg.Idx]), st.defMem[p.cfg.Idx]))
				continue
			}
			if g.Tag != r.Tag {
				w.violate("C17", "pe-wrong", subj, fmt.Sprintf("%s: peer holds %x expected %x", key, g.Tag, r.Tag))
			}
			wantRT := rtStrings(r.RTs)
			sort.Strings(wantRT)
			gotRT := append([]string(nil), g.Attrs.ExtComms...)
			sort.Strings(gotRT)
			if strings.Join(uniq(gotRT), ",") != strings.Join(uniq(wantRT), ",") {
				w.violate("C17", "export-route-targets", subj, fmt.Sprintf("%s advertised with route targets %v, expected %v (vrf %q)", key, gotRT, wantRT, r.VRF))
			}
		}
		for _, key := range sortedKeys(got) {
			if want[key] == nil {
				w.violate("C17", "pe-extra", subj, fmt.Sprintf("VPN route %s (tag %x) is held by the peer but must not be (memberships %v default=%v)", key, got[key].Tag, memberList(st.members[p.cfg.Idx]), st.defMem[p.cfg.Idx]))
			}
			fp = append(fp, fmt.Sprintf("pe%d:%s", p.cfg.Idx, key))
		}
	}
	// VRF tables
	for _, name := range sortedKeys(st.vrfs) {
		v := st.vrfs[name]
		tbl, err := w.listPaths(api.TableType_TABLE_TYPE_VRF, name, famV4, false)
		if err != nil {
			w.harnessError("ListPath vrf %s: %v", name, err)
			return
		}
		want := map[uint32]bool{}
		for _, r := range st.routes {
			if intersects(r.RTs, v.Import) {
				want[r.Tag] = true
			}
		}
		got := map[uint32]bool{}
		for _, l := range tbl {
			for _, rp := range l {
				got[rp.Tag] = true
			}
		}
		for t := range want {
			if !got[t] {
				w.violate("C17", "vrf-table-missing", name, fmt.Sprintf("route %x with an imported target is not visible in the VRF", t))
			}
		}
		for t := range got {
			if !want[t] {
				w.violate("C17", "vrf-table-extra", name, fmt.Sprintf("route %x is visible in the VRF without an imported target", t))
			}
		}
	}
	sort.Strings(fp)
	w.addStateFP(fp...)
}

func memberList(m map[int]bool) []int {
	var l []int
	for k := range m {
		l = append(l, k)
	}
	sort.Ints(l)
	return l
}

func uniq(l []string) []string {
	var out []string
	for i, s := range l {
		if i == 0 || s != l[i-1] {
			out = append(out, s)
		}
	}
	return out
}

func vpnCheck(w *simWorld, phase int) {
	w.vpnCompare(w.vpn())
}
