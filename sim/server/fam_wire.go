package server

// Family "wire": what the session reader does with damaged input.
//   mode "malformed" (C06): a catalogue of UPDATE faults (RFC 7606 s.7, RFC 4271 s.6.3) x attribute
//        positions x session kinds x treat-as-withdraw on/off, each delivered on a live session
//        between valid traffic; the reaction is compared with an independently written action table.
//   mode "fuzz" (C05): corrupted / truncated / fragmented / random messages of every type, with an
//        API client rendering the tables concurrently; no panic, no hang, framing preserved.

import (
	"context"
	"encoding/binary"
	"encoding/json"
	"fmt"
	"net"
	"net/netip"
	"sort"
	"strings"
	"testing/synctest"
	"time"

	"github.com/osrg/gobgp/v4/api"
	"github.com/osrg/gobgp/v4/pkg/apiutil"
	"github.com/osrg/gobgp/v4/pkg/packet/bgp"
)

func init() {
	families["wire"] = &familyImpl{setup: wireSetup, op: wireOp, check: wireCheck}
	extraGenerators["wire"] = genWire
}

// ---------------------------------------------------------------- fault catalogue (C06)

const (
	actNone     = 0
	actDiscard  = 1
	actWithdraw = 2
	actReset    = 3
)

var actName = []string{"none", "attribute-discard", "treat-as-withdraw", "session-reset"}

type wireFault struct {
	Name string
	// Expected strongest action under revised error handling, for an eBGP / iBGP session.
	EBGP, IBGP int
	// NOTIFICATION subcodes acceptable when the session is reset (code 3).
	Subs []uint8
	// attribute type that must not be present in an installed route (discard class)
	Drop uint8
}

// The table is written from RFC 7606 section 7 (per-attribute handling), section 3 (a-j), section 5.3,
// and RFC 4271 section 6.3 (subcodes).  It shares nothing with gobgp's tables.
var wireFaults = []wireFault{
	{"origin_badlen", actWithdraw, actWithdraw, []uint8{5}, 0},
	{"origin_badval", actWithdraw, actWithdraw, []uint8{6}, 0},
	{"origin_badflags", actWithdraw, actWithdraw, []uint8{4}, 0},
	{"aspath_badsegtype", actWithdraw, actWithdraw, []uint8{11}, 0},
	{"aspath_overrun", actWithdraw, actWithdraw, []uint8{11, 5}, 0},
	{"aspath_zeroseg", actWithdraw, actWithdraw, []uint8{11}, 0},
	{"nexthop_badlen", actWithdraw, actWithdraw, []uint8{5}, 0},
	{"nexthop_zero", actWithdraw, actWithdraw, []uint8{8}, 0},
	{"nexthop_multicast", actWithdraw, actWithdraw, []uint8{8}, 0},
	{"med_badlen", actWithdraw, actWithdraw, []uint8{5}, 0},
	{"localpref_badlen", actDiscard, actWithdraw, []uint8{5}, 5},
	{"atomic_badlen", actDiscard, actDiscard, []uint8{5}, 6},
	{"aggregator_badlen", actDiscard, actDiscard, []uint8{5}, 7},
	{"communities_badlen", actWithdraw, actWithdraw, []uint8{5, 9}, 0},
	{"originator_badlen", actDiscard, actWithdraw, []uint8{5}, 9},
	{"clusterlist_badlen", actDiscard, actWithdraw, []uint8{5}, 10},
	{"extcomm_badlen", actWithdraw, actWithdraw, []uint8{5, 9}, 0},
	{"missing_origin", actWithdraw, actWithdraw, []uint8{3}, 0},
	{"missing_aspath", actWithdraw, actWithdraw, []uint8{3}, 0},
	{"missing_nexthop", actWithdraw, actWithdraw, []uint8{3}, 0},
	{"dup_origin", actDiscard, actDiscard, []uint8{1}, 0},
	{"dup_communities", actDiscard, actDiscard, []uint8{1}, 0},
	{"attr_overrun", actWithdraw, actWithdraw, []uint8{1, 5}, 0},
	{"total_attr_overrun", actReset, actReset, []uint8{1}, 0},
	{"withdrawn_overrun", actReset, actReset, []uint8{1}, 0},
	{"nlri_badprefixlen", actReset, actReset, []uint8{10, 1}, 0},
	{"nlri_truncated", actReset, actReset, []uint8{10, 1}, 0},
	{"unknown_wellknown", actReset, actReset, []uint8{2}, 0},
	{"wellknown_optional_flag", actWithdraw, actWithdraw, []uint8{4}, 0},
	{"valid", actNone, actNone, nil, 0},
	{"valid_unknown_transitive", actNone, actNone, nil, 0},
}

func faultByName(n string) *wireFault {
	for i := range wireFaults {
		if wireFaults[i].Name == n {
			return &wireFaults[i]
		}
	}
	return nil
}

// rawAttr lets a fault declare a length different from the bytes present.
type rawAttr struct {
	Flags, Type uint8
	Val         []byte
	DeclLen     int // <0: real length
}

func (a rawAttr) bytes() []byte {
	l := len(a.Val)
	if a.DeclLen >= 0 {
		l = a.DeclLen
	}
	fl := a.Flags
	if l > 255 {
		fl |= 0x10
	}
	var b []byte
	if fl&0x10 != 0 {
		b = []byte{fl, a.Type, byte(l >> 8), byte(l)}
	} else {
		b = []byte{fl, a.Type, byte(l)}
	}
	return append(b, a.Val...)
}

type wireUpdate struct {
	Attrs       []rawAttr
	NLRI        []byte
	Withdrawn   []byte
	TotalAttrLn int // <0 real
	WdLn        int // <0 real
}

func (u *wireUpdate) bytes() []byte {
	var ab []byte
	for _, a := range u.Attrs {
		ab = append(ab, a.bytes()...)
	}
	wl := len(u.Withdrawn)
	if u.WdLn >= 0 {
		wl = u.WdLn
	}
	al := len(ab)
	if u.TotalAttrLn >= 0 {
		al = u.TotalAttrLn
	}
	body := []byte{byte(wl >> 8), byte(wl)}
	body = append(body, u.Withdrawn...)
	body = append(body, byte(al>>8), byte(al))
	body = append(body, ab...)
	body = append(body, u.NLRI...)
	return append(wHeader(wUpdate, len(body)), body...)
}

// baseUpdate: a valid announcement of prefix by the victim peer, with a rich attribute set.
func baseUpdate(cfg *PeerCfg, prefix string, tag uint32, order uint64) *wireUpdate {
	u := &wireUpdate{TotalAttrLn: -1, WdLn: -1}
	var path []asSeg
	if !isIBGPKind(cfg.Kind) {
		path = []asSeg{{2, []uint32{cfg.AS, 65010}}}
	} else {
		path = []asSeg{{2, []uint32{65010}}}
	}
	nh := netip.MustParseAddr(cfg.Addr).As4()
	attrs := []rawAttr{
		{0x40, 1, []byte{0}, -1},
		{0x40, 2, wEncodeASPath(path, false), -1},
		{0x40, 3, nh[:], -1},
		{0x80, 4, u32b(10), -1},
		{0x40, 6, nil, -1},
		{0xc0, 7, append(u32b(65010), 10, 9, 9, 9), -1},
		{0xc0, 8, append(u32b(uint32(65000)<<16|1), u32b(tag)...), -1},
		{0xc0, 16, encodeRT("rt:65000:1"), -1},
	}
	if isIBGPKind(cfg.Kind) {
		attrs = append(attrs, rawAttr{0x40, 5, u32b(100), -1},
			rawAttr{0x80, 9, []byte{192, 168, 9, 9}, -1},
			rawAttr{0x80, 10, []byte{192, 168, 9, 1}, -1})
	}
	// attribute order is free: permute deterministically
	g := newGen(order)
	for i := len(attrs) - 1; i > 0; i-- {
		j := g.n(i + 1)
		attrs[i], attrs[j] = attrs[j], attrs[i]
	}
	u.Attrs = attrs
	u.NLRI = wEncodePrefix(netip.MustParsePrefix(prefix))
	return u
}

func (u *wireUpdate) find(t uint8) int {
	for i, a := range u.Attrs {
		if a.Type == t {
			return i
		}
	}
	return -1
}

func (u *wireUpdate) remove(t uint8) {
	if i := u.find(t); i >= 0 {
		u.Attrs = append(u.Attrs[:i], u.Attrs[i+1:]...)
	}
}

// applyFault damages the update; false if the fault does not apply to this session kind.
func applyFault(u *wireUpdate, name string, cfg *PeerCfg, pos uint64) bool {
	at := func(t uint8) *rawAttr {
		if i := u.find(t); i >= 0 {
			return &u.Attrs[i]
		}
		return nil
	}
	ensure := func(a rawAttr) *rawAttr {
		if x := at(a.Type); x != nil {
			return x
		}
		i := int(pos % uint64(len(u.Attrs)+1))
		u.Attrs = append(u.Attrs[:i], append([]rawAttr{a}, u.Attrs[i:]...)...)
		return &u.Attrs[i]
	}
	switch name {
	case "valid":
	case "valid_unknown_transitive":
		ensure(rawAttr{0xc0, 200, []byte{1, 2, 3}, -1})
	case "origin_badlen":
		at(1).Val = []byte{0, 0}
	case "origin_badval":
		at(1).Val = []byte{3}
	case "origin_badflags":
		at(1).Flags = 0x80
	case "wellknown_optional_flag":
		at(1).Flags = 0xc0
	case "aspath_badsegtype":
		v := at(2).Val
		v[0] = 9
	case "aspath_overrun":
		v := at(2).Val
		v[1] = 5
	case "aspath_zeroseg":
		a := at(2)
		a.Val = append([]byte{2, 0}, a.Val...)
	case "nexthop_badlen":
		at(3).Val = []byte{10, 0, 0}
	case "nexthop_zero":
		at(3).Val = []byte{0, 0, 0, 0}
	case "nexthop_multicast":
		at(3).Val = []byte{224, 0, 0, 1}
	case "med_badlen":
		at(4).Val = []byte{0, 0, 10}
	case "localpref_badlen":
		ensure(rawAttr{0x40, 5, nil, -1}).Val = []byte{0, 0, 100}
	case "atomic_badlen":
		at(6).Val = []byte{1}
	case "aggregator_badlen":
		at(7).Val = []byte{0, 0, 1, 2, 3}
	case "communities_badlen":
		a := at(8)
		a.Val = append(a.Val, 7)
	case "originator_badlen":
		ensure(rawAttr{0x80, 9, nil, -1}).Val = []byte{1, 2, 3}
	case "clusterlist_badlen":
		ensure(rawAttr{0x80, 10, nil, -1}).Val = []byte{1, 2, 3, 4, 5}
	case "extcomm_badlen":
		a := at(16)
		a.Val = a.Val[:7]
	case "missing_origin":
		u.remove(1)
	case "missing_aspath":
		u.remove(2)
	case "missing_nexthop":
		u.remove(3)
	case "dup_origin":
		i := int(pos % uint64(len(u.Attrs)+1))
		j := u.find(1)
		if i <= j {
			i = j + 1
		}
		u.Attrs = append(u.Attrs[:i], append([]rawAttr{{0x40, 1, []byte{2}, -1}}, u.Attrs[i:]...)...)
	case "dup_communities":
		i := int(pos % uint64(len(u.Attrs)+1))
		j := u.find(8)
		if i <= j {
			i = j + 1
		}
		u.Attrs = append(u.Attrs[:i], append([]rawAttr{{0xc0, 8, u32b(uint32(65000)<<16 | 99), -1}}, u.Attrs[i:]...)...)
	case "attr_overrun":
		// the last attribute declares more bytes than the attribute section holds
		last := &u.Attrs[len(u.Attrs)-1]
		last.DeclLen = len(last.Val) + 4
		real := 0
		for _, a := range u.Attrs {
			real += len(a.bytes())
		}
		u.TotalAttrLn = real
	case "total_attr_overrun":
		real := 0
		for _, a := range u.Attrs {
			real += len(a.bytes())
		}
		u.TotalAttrLn = real + len(u.NLRI) + 7
	case "withdrawn_overrun":
		u.WdLn = 4000
	case "nlri_badprefixlen":
		u.NLRI = []byte{33, 10, 1, 2, 3, 4}
	case "nlri_truncated":
		u.NLRI = []byte{24, 10, 1}
	case "unknown_wellknown":
		ensure(rawAttr{0x40, 99, []byte{1}, -1})
	default:
		return false
	}
	return true
}

// ---------------------------------------------------------------- state

type wireState struct {
	victim   *simPeer
	observer *simPeer
	serial   int
	okPrefix map[string]uint32 // prefixes the victim currently has validly announced -> tag
	sess     int
}

func (w *simWorld) wire() *wireState { return w.fam.(*wireState) }

func wireSetup(w *simWorld) error {
	w.fam = &wireState{victim: w.peers[0], observer: w.peers[1], okPrefix: map[string]uint32{}}
	return nil
}

// ---------------------------------------------------------------- generator

func wireCells() []string {
	var l []string
	for _, f := range wireFaults {
		for _, k := range []string{"ebgp", "ibgp"} {
			for _, taw := range []string{"taw", "notaw"} {
				l = append(l, f.Name+"/"+k+"/"+taw)
			}
		}
	}
	return l
}

func genWire(seed uint64, tier, mode string) *Script {
	g := newGen(seed)
	sc := &Script{Family: "wire", Mode: mode, Seed: seed}
	sc.SchedSeed = g.u64() | 1
	sc.YieldN = pick(g, yieldChoices)
	sc.SelShuffle = g.p(70)
	sc.Global = GlobalCfg{AS: 65000, RouterID: "10.0.0.1"}
	kind := pick(g, []string{"ebgp", "ibgp"})
	v := PeerCfg{Idx: 0, Addr: peerAddr(0), RouterID: peerRID(0), Families: []string{"ipv4-unicast"}, Kind: kind, AS: 65001}
	if kind == "ibgp" {
		v.AS = 65000
	}
	v.NoTAW = g.p(35)
	o := PeerCfg{Idx: 1, Addr: peerAddr(1), RouterID: peerRID(1), Families: []string{"ipv4-unicast"}, Kind: "ebgp", AS: 65002}
	if mode == "fuzz" {
		v.Families = append(v.Families, "ipv6-unicast")
		o.Families = append(o.Families, "ipv6-unicast")
		if g.p(40) {
			v.AddPathRecv = true
		}
		if g.p(40) {
			v.ExtMsg = true
		}
		if g.p(30) {
			v.NoAS4 = true
		}
		sc.Net.Fragment = pick(g, []int{0, 0, 1, 3, 7, 19})
		sc.Net.FragDelay = pick(g, []int{0, 1, 50})
	}
	sc.Peers = []PeerCfg{v, o}
	var ops []Op
	ops = append(ops, Op{Kind: "up", Actor: 0, Peer: 1}, Op{Kind: "up", Actor: 0, Peer: 0})
	if mode == "fuzz" {
		n := g.rng(10, 40)
		if tier == "thorough" {
			n = g.rng(30, 120)
		}
		for i := 0; i < n; i++ {
			r := g.n(100)
			switch {
			case r < 25:
				ops = append(ops, Op{Kind: "valid", Actor: 0, N: g.n(1 << 30)})
			case r < 75:
				ops = append(ops, Op{Kind: "mutate", Actor: 0, N: g.n(1 << 30), Arg: pick(g, []string{"flip", "flip", "insert", "delete", "truncate", "lenfield", "attrlen", "attrwrap", "mpnlri", "mpnlri", "random", "type", "openmut", "bigclaim"})})
			case r < 85:
				ops = append(ops, Op{Kind: "render", Actor: 0})
			case r < 92:
				ops = append(ops, Op{Kind: "cutmid", Actor: 0, N: g.n(1 << 30)})
			default:
				ops = append(ops, Op{Kind: "reup", Actor: 0})
			}
		}
		ops = append(ops, Op{Kind: "render", Actor: 0})
		sc.Phases = []Phase{{Ops: ops, Settle: 2, Check: true}}
		sc.Final = pick(g, []string{"stop", "stopbgp"})
		return sc
	}
	// malformed: a handful of catalogue cells per run; the cell is determined by the seed so that
	// consecutive indices sweep the grid
	n := g.rng(3, 8)
	for i := 0; i < n; i++ {
		f := wireFaults[g.n(len(wireFaults))]
		op := Op{Kind: "fault", Actor: 0, Arg: f.Name, N: g.n(1 << 30)}
		if g.p(25) {
			// two faults in one message: the strongest reaction wins
			op.Arg2 = wireFaults[g.n(len(wireFaults))].Name
		}
		if g.p(50) {
			ops = append(ops, Op{Kind: "valid", Actor: 0, N: g.n(1 << 30)})
		}
		ops = append(ops, op)
		if g.p(40) {
			ops = append(ops, Op{Kind: "valid", Actor: 0, N: g.n(1 << 30)})
		}
	}
	sc.Phases = []Phase{{Ops: ops, Settle: 2, Check: true}}
	sc.Final = "stop"
	return sc
}

// ---------------------------------------------------------------- ops

func (w *simWorld) wirePrefix(n int) string {
	return fmt.Sprintf("10.%d.%d.0/24", 100+(n>>8)%50, n&0xff)
}

func expectedAction(f *wireFault, cfg *PeerCfg) int {
	if isIBGPKind(cfg.Kind) {
		return f.IBGP
	}
	return f.EBGP
}

func wireOp(w *simWorld, actor int, op *Op) {
	st := w.wire()
	v := st.victim
	settle := func() {
		w.net.drain()
		time.Sleep(20 * time.Millisecond)
		synctest.Wait()
		w.net.drain()
		synctest.Wait()
	}
	ensureUp := func() bool {
		if v.isUp() {
			return true
		}
		time.Sleep(6 * time.Second) // idle hold
		r := v.connectPassive(false, 20*time.Second)
		if r.ok {
			st.okPrefix = map[string]uint32{}
			st.sess++
		}
		settle()
		return r.ok
	}
	switch op.Kind {
	case "up":
		p := w.peers[op.Peer]
		r := p.connectPassive(false, 20*time.Second)
		if !r.ok {
			w.harnessError("wire: peer %d could not connect: %s", op.Peer, r.reason)
		}
		settle()
	case "reup":
		v.dropSession("close")
		v.waitDown(2 * time.Second)
		settle()
		ensureUp()
	case "valid":
		if !ensureUp() {
			return
		}
		st.serial++
		tag := mkTag(0, st.serial)
		pfx := w.wirePrefix(op.N)
		u := baseUpdate(v.cfg, pfx, tag, uint64(op.N))
		v.conform(u, 1)
		v.write(u.bytes())
		settle()
		st.okPrefix[pfx] = tag
		w.wireVerifyInstalled(st, pfx, tag, "valid UPDATE", 0)
		if !v.isUp() {
			w.violate("C06", "well-formed-penalised", "valid UPDATE", "the session was reset after a well-formed UPDATE: "+v.downWhy)
		}
		w.probe("valid_update")
	case "fault":
		if !ensureUp() {
			return
		}
		f := faultByName(op.Arg)
		exp := expectedAction(f, v.cfg)
		subs := append([]uint8(nil), f.Subs...)
		st.serial++
		tag := mkTag(0, st.serial)
		// half of the time the fault hits a prefix that is currently validly announced
		pfx := w.wirePrefix(op.N)
		known := sortedKeys(st.okPrefix)
		if len(known) > 0 && op.N%2 == 0 {
			pfx = known[(op.N>>3)%len(known)]
		}
		u := baseUpdate(v.cfg, pfx, tag, uint64(op.N))
		first, second := f.Name, op.Arg2
		if second != "" && structuralFault[first] {
			// faults on the framing are applied after faults on attribute contents
			first, second = second, first
		}
		if second == "" || !(faultByName(second) != nil && second != first && !strings.HasPrefix(second, "valid") && !strings.HasPrefix(first, "valid") && compatibleFaults(first, second)) {
			second = ""
			first = f.Name
		}
		lastBefore := u.Attrs[len(u.Attrs)-1]
		applyFault(u, first, v.cfg, uint64(op.N>>4))
		if second == "attr_overrun" {
			// attr_overrun damages the LAST attribute. If the first fault put its own attribute there
			// (or changed it), both errors sit on one attribute and RFC 7606 does not say which wins
			// (the overrun is detected before the attribute is looked at): do not compose.
			l := u.Attrs[len(u.Attrs)-1]
			if l.Type != lastBefore.Type || l.Flags != lastBefore.Flags || string(l.Val) != string(lastBefore.Val) || l.DeclLen != lastBefore.DeclLen {
				second = ""
				u = baseUpdate(v.cfg, pfx, tag, uint64(op.N))
				applyFault(u, f.Name, v.cfg, uint64(op.N>>4))
				w.probe("fault_pair_same_attribute_skipped")
			}
		}
		drop := []uint8{}
		if f.Drop != 0 {
			drop = append(drop, f.Drop)
		}
		name := f.Name
		if second != "" {
			f2 := faultByName(op.Arg2)
			{
				applyFault(u, second, v.cfg, uint64(op.N>>9))
				if e2 := expectedAction(f2, v.cfg); e2 > exp {
					exp = e2
					subs = append([]uint8(nil), f2.Subs...)
				} else if e2 == exp {
					subs = append(subs, f2.Subs...)
				}
				if f2.Drop != 0 {
					drop = append(drop, f2.Drop)
				}
				name += "+" + f2.Name
			}
		}
		if v.cfg.NoTAW && exp != actNone {
			// revised error handling disabled: every malformed UPDATE resets the session
			exp = actReset
			subs = nil
		}
		kindName := "ebgp"
		if isIBGPKind(v.cfg.Kind) {
			kindName = "ibgp"
		}
		tawName := "taw"
		if v.cfg.NoTAW {
			tawName = "notaw"
		}
		w.cell(name + "/" + kindName + "/" + tawName)
		nNotif := len(v.notifsCopy())
		v.write(u.bytes())
		settle()
		w.probe("fault_" + actName[exp])
		subj := fmt.Sprintf("%s %s %s", name, kindName, tawName)
		up := v.isUp()
		notifs := v.notifsCopy()
		switch exp {
		case actNone:
			if !up {
				w.violate("C06", "well-formed-penalised", subj, "session reset after a well-formed UPDATE")
				return
			}
			st.okPrefix[pfx] = tag
			w.wireVerifyInstalled(st, pfx, tag, subj, 0)
		case actReset:
			if up {
				w.violate("C06", "reaction-too-weak", subj, fmt.Sprintf("the UPDATE calls for a session reset; the session is still established (route installed: %v)", w.wireHas(v.cfg.Addr, pfx, tag)))
				return
			}
			if len(notifs) <= nNotif {
				w.violate("C06", "no-notification", subj, "session ended without a NOTIFICATION")
			} else {
				n := notifs[len(notifs)-1]
				ok := n.Code == 3
				if ok && len(subs) > 0 {
					ok = false
					for _, s := range subs {
						if s == n.Sub {
							ok = true
						}
					}
				}
				if !ok {
					w.violate("C06", "notification-code", subj, fmt.Sprintf("NOTIFICATION %d/%d, RFC 4271 6.3 prescribes 3/%v", n.Code, n.Sub, subs))
				}
			}
			st.okPrefix = map[string]uint32{}
			w.wireVerifyGone(st, pfx, subj)
		case actWithdraw:
			if !up {
				w.violate("C06", "reaction-too-strong", subj, fmt.Sprintf("the UPDATE calls for treat-as-withdraw; the session was reset (%s)", v.downWhy))
				st.okPrefix = map[string]uint32{}
				return
			}
			delete(st.okPrefix, pfx)
			w.wireVerifyGone(st, pfx, subj)
		case actDiscard:
			if !up {
				w.violate("C06", "reaction-too-strong", subj, fmt.Sprintf("the UPDATE calls for attribute discard; the session was reset (%s)", v.downWhy))
				st.okPrefix = map[string]uint32{}
				return
			}
			if w.wireHas(v.cfg.Addr, pfx, tag) {
				st.okPrefix[pfx] = tag
				for _, d := range drop {
					w.wireVerifyInstalled(st, pfx, tag, subj, d)
				}
				if f.Name == "dup_origin" {
					w.wireVerifyFirstWins(pfx, tag, subj)
				}
			} else {
				// treated as withdraw: stronger than required but harmless to the session
				delete(st.okPrefix, pfx)
				w.wireVerifyGone(st, pfx, subj)
				w.probe("discard_as_withdraw")
			}
		}
	case "mutate", "cutmid", "render":
		w.wireFuzzOp(st, op, ensureUp, settle)
	default:
		w.harnessError("wire: unknown op %s", op.Kind)
	}
}

var structuralFault = map[string]bool{"attr_overrun": true, "total_attr_overrun": true, "withdrawn_overrun": true, "nlri_badprefixlen": true, "nlri_truncated": true}

// faultTarget: the attribute a fault manipulates (two faults on one attribute do not compose).
func faultTarget(n string) string {
	switch {
	case strings.Contains(n, "origin"), n == "wellknown_optional_flag":
		return "origin"
	case strings.Contains(n, "communities"):
		return "communities"
	}
	return strings.SplitN(strings.TrimPrefix(n, "missing_"), "_", 2)[0]
}

// conform re-encodes a base update for the options of the victim's session (path ids, AS width).
func (p *simPeer) conform(u *wireUpdate, pathID uint32) {
	if p.enc.AddPath[famV4] {
		u.NLRI = append(u32b(pathID), u.NLRI...)
	}
	if p.enc.AS2 {
		if i := u.find(2); i >= 0 {
			segs, _ := wParseASPath(u.Attrs[i].Val, false)
			if u.find(17) < 0 && len(segs) > 0 && len(segs[0].ASNs) > 1 {
				// an OLD speaker that carries a 4-octet AS number learned elsewhere: AS_TRANS in the
				// 2-octet AS_PATH and the real number in AS4_PATH (RFC 6793) - perfectly well-formed
				real := asSeg{segs[0].Type, append([]uint32(nil), segs[0].ASNs...)}
				real.ASNs[len(real.ASNs)-1] = 4200000100
				segs[0].ASNs[len(segs[0].ASNs)-1] = 23456
				u.Attrs = append(u.Attrs, rawAttr{0xc0, 17, wEncodeASPath([]asSeg{real}, false), -1})
			}
			u.Attrs[i].Val = wEncodeASPath(segs, true)
		}
		if i := u.find(7); i >= 0 {
			u.Attrs[i].Val = []byte{0xfd, 0xf2, 10, 9, 9, 9}
		}
	}
}

func compatibleFaults(a, b string) bool {
	if faultTarget(a) == faultTarget(b) {
		return false
	}
	if structuralFault[a] && structuralFault[b] {
		return false
	}
	return true
}

func (p *simPeer) notifsCopy() []wNotif {
	p.mu.Lock()
	defer p.mu.Unlock()
	return append([]wNotif(nil), p.notifs...)
}

func (w *simWorld) wireHas(addr, pfx string, tag uint32) bool {
	adj, err := w.listPaths(api.TableType_TABLE_TYPE_ADJ_IN, addr, famV4, false)
	if err != nil {
		return false
	}
	for _, rp := range adj[pfx] {
		if rp.Tag == tag {
			return true
		}
	}
	return false
}

// wireVerifyInstalled: the route is in Adj-RIB-In and Loc-RIB, reached the observer, and (drop != 0)
// does not carry the discarded attribute anywhere.
func (w *simWorld) wireVerifyInstalled(st *wireState, pfx string, tag uint32, subj string, drop uint8) {
	check := func(where string, ra *rAttrs) {
		if drop == 0 {
			return
		}
		bad := false
		switch drop {
		case 5:
			bad = ra.LocalPref >= 0 && ra.LocalPref != 100
		case 6:
			bad = ra.AtomicAgg
		case 7:
			bad = ra.Aggregator != ""
		case 9:
			bad = ra.Originator != ""
		case 10:
			bad = len(ra.ClusterList) > 0
		}
		if bad {
			w.violate("C06", "malformed-attribute-kept", subj, fmt.Sprintf("%s holds the route with the attribute (type %d) that arrived malformed: %s", where, drop, ra))
		}
	}
	found := false
	adj, _ := w.listPaths(api.TableType_TABLE_TYPE_ADJ_IN, st.victim.cfg.Addr, famV4, false)
	for _, rp := range adj[pfx] {
		if rp.Tag == tag {
			found = true
			check("Adj-RIB-In", rp.Attrs)
		}
	}
	if !found {
		w.violate("C06", "well-formed-not-installed", subj, fmt.Sprintf("route %s (tag %x) is not in Adj-RIB-In", pfx, tag))
		return
	}
	glob, _ := w.listPaths(api.TableType_TABLE_TYPE_GLOBAL, "", famV4, false)
	for _, rp := range glob[pfx] {
		if rp.Tag == tag {
			check("Loc-RIB", rp.Attrs)
		}
	}
	if st.observer.isUp() {
		view, _ := st.observer.snapshotView()
		v := view[viewKey{famV4, 0, pfx}]
		if v == nil || v.Tag != tag {
			w.violate("C06", "well-formed-not-propagated", subj, fmt.Sprintf("route %s (tag %x) did not reach the observer", pfx, tag))
		} else {
			check("observer", v.Attrs)
		}
	}
}

// wireVerifyGone: nothing for the prefix from the victim is installed or propagated.
func (w *simWorld) wireVerifyGone(st *wireState, pfx string, subj string) {
	adj, _ := w.listPaths(api.TableType_TABLE_TYPE_ADJ_IN, st.victim.cfg.Addr, famV4, false)
	if len(adj[pfx]) > 0 {
		// a treat-as-withdraw'n route may be retained in Adj-RIB-In only if it is not usable
		w.probe("adjin_after_withdraw")
	}
	glob, _ := w.listPaths(api.TableType_TABLE_TYPE_GLOBAL, "", famV4, false)
	for _, rp := range glob[pfx] {
		if rp.Src == st.victim.cfg.Addr {
			w.violate("C06", "malformed-installed", subj, fmt.Sprintf("Loc-RIB holds %s from the victim (tag %x) after an UPDATE that must withdraw it", pfx, rp.Tag))
		}
	}
	if st.observer.isUp() {
		view, _ := st.observer.snapshotView()
		if v := view[viewKey{famV4, 0, pfx}]; v != nil {
			w.violate("C06", "malformed-propagated", subj, fmt.Sprintf("the observer still holds %s (tag %x) after an UPDATE that must withdraw it", pfx, v.Tag))
		}
	}
}

func (w *simWorld) wireVerifyFirstWins(pfx string, tag uint32, subj string) {
	glob, _ := w.listPaths(api.TableType_TABLE_TYPE_GLOBAL, "", famV4, false)
	for _, rp := range glob[pfx] {
		if rp.Tag == tag && rp.Attrs.Origin != 0 {
			w.violate("C06", "duplicate-attribute", subj, fmt.Sprintf("installed ORIGIN %d: all but the first occurrence of an attribute must be discarded", rp.Attrs.Origin))
		}
	}
}

func wireCheck(w *simWorld, phase int) {
	st := w.wire()
	w.mu.Lock()
	w.checks++
	w.nonEmpty++
	w.mu.Unlock()
	// final consistency: everything validly announced on the current session is installed
	if st.victim.isUp() {
		for _, p := range sortedKeys(st.okPrefix) {
			if !w.wireHas(st.victim.cfg.Addr, p, st.okPrefix[p]) {
				w.violate("C06", "well-formed-lost", p, fmt.Sprintf("validly announced route (tag %x) missing from Adj-RIB-In at the end of the run", st.okPrefix[p]))
			}
		}
	}
	w.addStateFP(fmt.Sprint(st.victim.isUp()), fmt.Sprint(len(st.okPrefix)))
}

// ---------------------------------------------------------------- fuzz (C05)

func (w *simWorld) wireFuzzOp(st *wireState, op *Op, ensureUp func() bool, settle func()) {
	v := st.victim
	switch op.Kind {
	case "render":
		// an API client lists and renders everything the daemon stored (String/JSON of values that
		// may have come back from the parser together with a non-fatal error)
		for _, tt := range []api.TableType{api.TableType_TABLE_TYPE_GLOBAL, api.TableType_TABLE_TYPE_ADJ_IN} {
			for _, fam := range []wFamily{famV4, famV6} {
				name := ""
				if tt == api.TableType_TABLE_TYPE_ADJ_IN {
					name = v.cfg.Addr
				}
				_ = w.s.ListPath(apiutil.ListPathRequest{TableType: tt, Name: name, Family: gobgpFamily(fam)}, func(prefix bgp.NLRI, paths []*apiutil.Path) {
					_ = prefix.String()
					for _, p := range paths {
						for _, a := range p.Attrs {
							_ = a.String()
							_, _ = json.Marshal(a)
							_, _ = a.Serialize()
							_ = a.Len()
						}
					}
				})
			}
		}
		_ = w.listPeers()
		w.probe("render")
	case "cutmid":
		if !ensureUp() {
			return
		}
		st.serial++
		u := baseUpdate(v.cfg, w.wirePrefix(op.N), mkTag(0, st.serial), uint64(op.N)).bytes()
		cut := 1 + op.N%(len(u)-1)
		v.write(u[:cut])
		w.net.stats.fire("conn_reset")
		v.dropSession("reset")
		v.waitDown(2 * time.Second)
		settle()
		w.probe("cut_mid_message")
	case "mutate":
		if !ensureUp() {
			return
		}
		g := newGen(uint64(op.N))
		st.serial++
		tag := mkTag(0, st.serial)
		var msg []byte
		switch g.n(5) {
		case 0:
			msg = keepaliveBytes()
		case 1:
			msg = buildRouteRefresh(famV4)
		case 2:
			msg = v.buildWithdraw(famV4, w.wirePrefix(g.n(1<<16)), 1, 0, "")
		case 3:
			r := &annRoute{Tag: tag, Fam: famV6, Prefix: fmt.Sprintf("2001:db8:%x::/48", g.n(0xffff)), PathID: 1, Spec: &AttrSpec{Origin: 0, ASPath: []asSeg{{2, []uint32{v.cfg.AS}}}, NextHop: "2001:db8::2", MED: -1, LocalPref: -1}}
			if isIBGPKind(v.cfg.Kind) {
				r.Spec.LocalPref = 100
			}
			v.mu.Lock()
			msg = v.buildAnnounce(r)
			v.mu.Unlock()
		default:
			pid := -1
			if v.enc.AddPath[famV4] {
				pid = 1
			}
			_ = pid
			u := baseUpdate(v.cfg, w.wirePrefix(g.n(1<<16)), tag, uint64(op.N))
			v.conform(u, 1)
			msg = u.bytes()
		}
		msg = append([]byte(nil), msg...)
		switch op.Arg {
		case "flip":
			for k := 1 + g.n(3); k > 0; k-- {
				i := g.n(len(msg))
				msg[i] ^= byte(1 << uint(g.n(8)))
			}
		case "insert":
			i := 19 + g.n(len(msg)-18)
			ins := make([]byte, 1+g.n(8))
			for k := range ins {
				ins[k] = byte(g.n(256))
			}
			msg = append(msg[:i], append(ins, msg[i:]...)...)
			binary.BigEndian.PutUint16(msg[16:], uint16(len(msg)))
		case "delete":
			if len(msg) > 20 {
				i := 19 + g.n(len(msg)-19)
				msg = append(msg[:i], msg[i+1:]...)
				binary.BigEndian.PutUint16(msg[16:], uint16(len(msg)))
			}
		case "truncate":
			if len(msg) > 20 {
				msg = msg[:19+g.n(len(msg)-19)]
				binary.BigEndian.PutUint16(msg[16:], uint16(len(msg)))
			}
		case "lenfield":
			binary.BigEndian.PutUint16(msg[16:], uint16(pick(g, []int{0, 18, 19, 20, len(msg) - 1, len(msg) + 1, 4096, 4097, 65535})))
		case "attrlen":
			if len(msg) > 30 {
				i := 23 + g.n(len(msg)-23)
				msg[i] = byte(pick(g, []int{0, 1, 254, 255, 128}))
			}
		case "attrwrap":
			// one extended-length attribute whose declared length is within four of 65535: header
			// plus value no longer fits a 16-bit size (a wrapped size passes a naive bounds check)
			al := 0xfffc + g.n(4)
			typ := byte(pick(g, []int{99, 2, 8, 14, 16, 1}))
			val := make([]byte, g.n(6))
			body := []byte{0, 0, 0, byte(4 + len(val)), 0x90 | byte(g.n(2))<<6, typ, byte(al >> 8), byte(al)}
			body = append(body, val...)
			body = append(body, 24, 10, 77, byte(g.n(200)))
			msg = append(wHeader(wUpdate, len(body)), body...)
		case "mpnlri":
			// MP_REACH_NLRI / MP_UNREACH_NLRI of one of the less common families, its NLRI field made
			// of 1-3 entries whose declared length disagrees with the octets present (too short for
			// the fixed part of the NLRI with more data following, or longer than what is left)
			fams := [][2]int{{1, 4}, {2, 4}, {1, 128}, {2, 128}, {1, 133}, {2, 133}, {1, 134}, {2, 134}, {25, 134}, {25, 70}, {25, 65},
				{1, 132}, {1, 73}, {2, 73}, {16388, 71}, {16388, 72}, {1, 85}, {2, 85}, {1, 7}, {2, 7}, {1, 2}, {1, 5}, {2, 129}, {16397, 241}}
			fm := pick(g, fams)
			var nlri []byte
			for k := g.rng(1, 3); k > 0; k-- {
				have := pick(g, []int{0, 1, 3, 7, 8, 9, 12, 16, 25, 40})
				decl := pick(g, []int{0, 1, 2, 5, 7, 8, have, have + 1, have * 8, 24, 64, 120, 0xf0, 0xff})
				if fm[1] == 70 || fm[1] == 85 || fm[1] == 71 || fm[1] == 72 {
					// route type first (EVPN, MUP: type + length; BGP-LS: 2-octet type + 2-octet length)
					nlri = append(nlri, byte(1+g.n(6)))
					if fm[1] == 85 {
						nlri = append(nlri, 0, byte(1+g.n(4)))
					}
					if fm[1] == 71 || fm[1] == 72 {
						nlri = append([]byte{0}, nlri...)
						nlri = append(nlri, 0)
					}
				}
				nlri = append(nlri, byte(decl))
				for j := 0; j < have; j++ {
					nlri = append(nlri, byte(g.n(256)))
				}
			}
			var mp []byte
			if g.p(70) {
				nh := make([]byte, pick(g, []int{0, 4, 12, 16, 24, 32}))
				mp = append([]byte{byte(fm[0] >> 8), byte(fm[0]), byte(fm[1]), byte(len(nh))}, nh...)
				mp = append(mp, 0)
				mp = append(mp, nlri...)
				mp = wEncodeAttr(0x80, 14, mp)
			} else {
				mp = wEncodeAttr(0x80, 15, append([]byte{byte(fm[0] >> 8), byte(fm[0]), byte(fm[1])}, nlri...))
			}
			attrs := append(wEncodeAttr(0x40, 1, []byte{0}), wEncodeAttr(0x40, 2, nil)...)
			attrs = append(attrs, mp...)
			body := append([]byte{0, 0, byte(len(attrs) >> 8), byte(len(attrs))}, attrs...)
			msg = append(wHeader(wUpdate, len(body)), body...)
		case "random":
			n := 19 + g.n(60)
			msg = wHeader(uint8(1+g.n(6)), n-19)
			for k := 19; k < n; k++ {
				msg = append(msg, byte(g.n(256)))
			}
		case "type":
			msg[18] = byte(g.n(256))
		case "openmut":
			msg = st.victim.buildOpen(false)
			i := 19 + g.n(len(msg)-19)
			msg[i] ^= byte(1 << uint(g.n(8)))
		case "bigclaim":
			// a header that announces a large message followed by little data, then silence
			binary.BigEndian.PutUint16(msg[16:], uint16(pick(g, []int{4096, 3000})))
		}
		before := len(v.notifsCopy())
		// is the damaged message still one self-contained frame?
		framed := len(msg) >= 19 && int(binary.BigEndian.Uint16(msg[16:18])) == len(msg)
		for i := 0; i < 16 && i < len(msg); i++ {
			if msg[i] != 0xff {
				framed = false
			}
		}
		v.write(msg)
		settle()
		w.probe("mutated_" + op.Arg)
		if !framed {
			// the stream is out of frame by construction (the reader may legitimately be waiting
			// for the rest of the claimed length): only crash/hang freedom is asserted; resynchronise
			if v.isUp() {
				v.write(make([]byte, 4200))
				settle()
			}
			if v.isUp() {
				v.dropSession("reset")
				v.waitDown(2 * time.Second)
				settle()
			}
			w.probe("unframed_damage")
			return
		}
		if v.isUp() {
			// framing must be intact: the next valid message is parsed as such
			st.serial++
			t2 := mkTag(0, st.serial)
			pfx := w.wirePrefix(70000 + st.serial)
			u := baseUpdate(v.cfg, pfx, t2, uint64(op.N)+1)
			v.conform(u, 5)
			v.write(u.bytes())
			settle()
			if v.isUp() && !w.wireHas(v.cfg.Addr, pfx, t2) {
				w.violate("C05", "framing-lost", op.Arg, fmt.Sprintf("after a damaged message that did not end the session, the next valid UPDATE (%s) was not parsed in frame", pfx))
			}
			w.probe("survived_mutation")
		} else {
			if len(v.notifsCopy()) == before {
				w.probe("reset_without_notification")
			}
			w.probe("reset_by_mutation")
		}
	}
}

var _ = context.Background
var _ = net.IPv4
var _ = sort.Strings
