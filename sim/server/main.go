package server

// Entry point of the simulator binary: TestVsim reads its job from the environment, runs the
// requested seeds (or a replay file) one bubble at a time, and writes one JSON line per run.

import (
	"bufio"
	"encoding/json"
	"fmt"
	"hash/fnv"
	"os"
	"os/exec"
	"runtime"
	"runtime/debug"
	"strconv"
	"sync/atomic"
	"syscall"
	"testing"
	"time"
)

type outLine struct {
	Begin  *uint64    `json:"begin,omitempty"`
	Index  int        `json:"index"`
	Result *RunResult `json:"result,omitempty"`
	Script *Script    `json:"script,omitempty"`
	Hang   string     `json:"hang,omitempty"`
}

var (
	vsimOut     *bufio.Writer
	vsimOutFile *os.File
	vsimRunning atomic.Bool
	vsimCurIdx  atomic.Int64
)

func emit(l *outLine) {
	b, _ := json.Marshal(l)
	vsimOut.Write(b)
	vsimOut.WriteByte('\n')
	vsimOut.Flush()
}

func envInt(name string, def int64) int64 {
	if v := os.Getenv(name); v != "" {
		if n, err := strconv.ParseInt(v, 10, 64); err == nil {
			return n
		}
	}
	return def
}

func strHash(s string) uint64 {
	h := fnv.New64a()
	h.Write([]byte(s))
	return h.Sum64()
}

// genScript dispatches to the family generators.
func genScript(family, mode, tier string, seed uint64) *Script {
	switch family {
	case "world":
		return genWorld(seed, tier, mode)
	}
	if g := extraGenerators[family]; g != nil {
		return g(seed, tier, mode)
	}
	return nil
}

var extraGenerators = map[string]func(seed uint64, tier, mode string) *Script{}

var statmFd = -1
var statmBuf [128]byte

// residentMiB reads the resident set size without allocating (the watchdog must not disturb the
// heap layout of the run it watches).
func residentMiB() int64 {
	if statmFd < 0 {
		fd, err := syscall.Open("/proc/self/statm", syscall.O_RDONLY, 0)
		if err != nil {
			return 0
		}
		statmFd = fd
	}
	n, err := syscall.Pread(statmFd, statmBuf[:], 0)
	if err != nil || n <= 0 {
		return 0
	}
	// second field: resident pages
	i := 0
	for i < n && statmBuf[i] != ' ' {
		i++
	}
	i++
	var pages int64
	for i < n && statmBuf[i] >= '0' && statmBuf[i] <= '9' {
		pages = pages*10 + int64(statmBuf[i]-'0')
		i++
	}
	return pages * 4096 >> 20
}

func watchdog(limit time.Duration) {
	last := uint64(0)
	same := 0
	lastProg, sameProg := uint64(0), 0
	livelock := int(envInt("VSIM_LIVELOCK_S", 45))
	memTick := 0
	for {
		time.Sleep(time.Second)
		if !vsimRunning.Load() {
			same, sameProg = 0, 0
			continue
		}
		if pr := vsimProgress.Load(); pr == lastProg {
			sameProg++
		} else {
			sameProg, lastProg = 0, pr
		}
		if sameProg >= livelock {
			// goroutines are being scheduled but neither the script nor virtual time moves:
			// something in the bubble spins without ever blocking
			buf := make([]byte, 1<<20)
			n := runtime.Stack(buf, true)
			emit(&outLine{Index: int(vsimCurIdx.Load()), Hang: "LIVELOCK: no harness progress for " + fmt.Sprint(livelock) + " s of real time although goroutines keep running (quiescence is never reached)\n" + string(buf[:n])})
			os.Stderr.Write(buf[:n])
			os.Exit(3)
		}
		if memTick++; memTick%5 == 0 {
			// GC is off during a run: a run that allocates without bound (a script whose own
			// loop never lets virtual time pass, say) must not take the machine down
			// (resident size from /proc: runtime.ReadMemStats stops the world, which preempts the
			// running goroutine of the simulated system at a real-time-dependent point - long runs
			// on a loaded machine stopped being reproducible when the guard used it)
			if rss := residentMiB(); rss > envInt("VSIM_MEM_MB", 10240) {
				fmt.Fprintf(os.Stderr, "VSIM-RESOURCE: resident %d MiB in run index %d: aborting the worker\n", rss, vsimCurIdx.Load())
				os.Exit(5)
			}
		}
		p := runtime.SimBubblePicks()
		if p == last {
			same++
		} else {
			same = 0
			last = p
		}
		if time.Duration(same)*time.Second >= limit {
			buf := make([]byte, 1<<20)
			n := runtime.Stack(buf, true)
			emit(&outLine{Index: int(vsimCurIdx.Load()), Hang: string(buf[:n])})
			os.Stderr.Write(buf[:n])
			os.Exit(3)
		}
	}
}

func TestVsim(t *testing.T) {
	out := os.Getenv("VSIM_OUT")
	if out == "" {
		t.Skip("VSIM_OUT not set: not a simulator invocation")
	}
	if runtime.GOMAXPROCS(0) != 1 {
		t.Fatal("GOMAXPROCS must be 1")
	}
	f, err := os.OpenFile(out, os.O_CREATE|os.O_WRONLY|os.O_APPEND, 0o644)
	if err != nil {
		t.Fatal(err)
	}
	vsimOutFile = f
	vsimOut = bufio.NewWriter(f)
	defer f.Close()
	debug.SetGCPercent(-1)
	// The collector stays off (it parks goroutines at allocation-dependent instants) unless a run
	// allocates beyond the soft limit: then it runs rather than letting one heavy script take
	// gigabytes per worker.  Such runs are counted (probe gc_ran_during_run); their schedule may
	// not replay exactly.
	debug.SetMemoryLimit(envInt("VSIM_SOFT_MEM_MB", 3072) << 20)
	go watchdog(time.Duration(envInt("VSIM_HANG_S", 20)) * time.Second)
	dump := os.Getenv("VSIM_DUMP") != ""

	if rp := os.Getenv("VSIM_REPLAY"); rp != "" {
		b, err := os.ReadFile(rp)
		if err != nil {
			t.Fatal(err)
		}
		var rf struct {
			Script *Script `json:"script"`
		}
		if err := json.Unmarshal(b, &rf); err != nil || rf.Script == nil {
			t.Fatalf("bad replay file: %v", err)
		}
		reps := int(envInt("VSIM_REPEAT", 1))
		for i := 0; i < reps; i++ {
			seed := rf.Script.Seed
			emit(&outLine{Begin: &seed, Index: i})
			vsimCurIdx.Store(int64(i))
			vsimRunning.Store(true)
			res := runScript(t, rf.Script, dump && i == 0)
			vsimRunning.Store(false)
			emit(&outLine{Index: i, Result: res})
			runtime.GC()
		}
		return
	}

	family := os.Getenv("VSIM_FAMILY")
	mode := os.Getenv("VSIM_MODE")
	tier := os.Getenv("VSIM_TIER")
	base := uint64(envInt("VERIF_SEED", 1))
	from := int(envInt("VSIM_FROM", 0))
	count := int(envInt("VSIM_COUNT", 1))
	step := int(envInt("VSIM_STEP", 1))
	deadline := time.Now().Add(time.Duration(envInt("VSIM_WALL_S", 3600)) * time.Second)
	fseed := mix(base, strHash(family+"/"+mode))
	if count > 1 && os.Getenv("VSIM_GENONLY") == "" && os.Getenv("VSIM_INPROC") == "" {
		// One OS process per run: a run in a process that has already executed another one is
		// NOT the same execution as in a fresh process (one-time initialisation in gobgp and its
		// dependencies passes yield points only the first time, the heap layout differs), and a
		// replay file is always executed in a fresh process.  So every run of a batch gets a
		// fresh process too; it is also faster than collecting the garbage between runs.
		f.Close()
		for i := 0; i < count; i++ {
			idx := from + i*step
			if time.Now().After(deadline) {
				break
			}
			cmd := exec.Command(os.Args[0], "-test.run", "^TestVsim$", "-test.timeout", "0")
			cmd.Env = append(os.Environ(), fmt.Sprintf("VSIM_FROM=%d", idx), "VSIM_COUNT=1")
			cmd.Stdout, cmd.Stderr = os.Stdout, os.Stderr
			if err := cmd.Run(); err != nil {
				if ee, ok := err.(*exec.ExitError); ok && ee.ExitCode() > 0 {
					os.Exit(ee.ExitCode())
				}
				fmt.Fprintf(os.Stderr, "vsim worker: child for index %d: %v\n", idx, err)
				os.Exit(7)
			}
		}
		fmt.Fprintf(os.Stderr, "vsim worker done\n")
		return
	}
	for i := 0; i < count; i++ {
		idx := from + i*step
		if time.Now().After(deadline) {
			break
		}
		seed := mix(fseed, uint64(idx))
		sc := genScript(family, mode, tier, seed)
		if sc == nil {
			t.Fatalf("no generator for family %q", family)
		}
		if os.Getenv("VSIM_GENONLY") != "" {
			emit(&outLine{Index: idx, Script: sc})
			continue
		}
		emit(&outLine{Begin: &seed, Index: idx})
		vsimCurIdx.Store(int64(idx))
		vsimRunning.Store(true)
		res := runScript(t, sc, dump)
		vsimRunning.Store(false)
		var ms runtime.MemStats
		runtime.ReadMemStats(&ms)
		if ms.NumGC > 0 && i == 0 {
			if res.Probes == nil {
				res.Probes = map[string]int{}
			}
			res.Probes["gc_ran_during_run"] = int(ms.NumGC)
		}
		l := &outLine{Index: idx, Result: res}
		if !res.OK || os.Getenv("VSIM_KEEP_SCRIPTS") != "" || i < 2 {
			l.Script = sc
		}
		emit(l)
		runtime.GC()
	}
	fmt.Fprintf(os.Stderr, "vsim worker done\n")
}
