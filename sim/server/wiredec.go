package server

// Independent, minimal reading of the BGP wire format (RFC 4271 framing, RFC 4760 MP attributes,
// RFC 7911 path identifiers, RFC 6793 AS_PATH widths).  It shares no code with gobgp's codec, so a
// symmetric encode/decode defect there cannot hide a wrong advertisement from the oracles.

import (
	"encoding/binary"
	"fmt"
	"net/netip"
	"sort"
	"strings"
)

const (
	wOpen         = 1
	wUpdate       = 2
	wNotification = 3
	wKeepalive    = 4
	wRouteRefresh = 5
)

type wFamily struct {
	AFI  uint16
	SAFI uint8
}

var (
	famV4   = wFamily{1, 1}
	famV6   = wFamily{2, 1}
	famVPN4 = wFamily{1, 128}
	famVPN6 = wFamily{2, 128}
	famRTC  = wFamily{1, 132}
)

func (f wFamily) String() string {
	switch f {
	case famV4:
		return "ipv4-unicast"
	case famV6:
		return "ipv6-unicast"
	case famVPN4:
		return "l3vpn-ipv4-unicast"
	case famVPN6:
		return "l3vpn-ipv6-unicast"
	case famRTC:
		return "rtc"
	}
	return fmt.Sprintf("afi%d-safi%d", f.AFI, f.SAFI)
}

type wCap struct {
	Code uint8
	Val  []byte
}

type wOpenMsg struct {
	Version  uint8
	AS       uint16
	HoldTime uint16
	ID       netip.Addr
	Caps     []wCap
	OptOther int // non-capability optional parameters
}

type wAttr struct {
	Flags uint8
	Type  uint8
	Val   []byte
}

type wNLRI struct {
	PathID uint32
	Key    string // canonical text of the NLRI without path id
	Label  uint32 // VPN: first label (20 bits) and bottom-of-stack etc. as raw 24 bits
}

type wUpdateMsg struct {
	Withdrawn  []wNLRI // IPv4 unicast
	Attrs      []wAttr // every attribute in wire order, including MP_REACH/MP_UNREACH
	NLRI       []wNLRI // IPv4 unicast
	ReachFam   wFamily
	Reach      []wNLRI
	ReachNH    []byte
	UnreachOk  bool
	UnreachFam wFamily
	Unreach    []wNLRI
}

type wNotif struct {
	Code, Sub uint8
	Data      []byte
}

type wMsg struct {
	Type   uint8
	Len    int
	Open   *wOpenMsg
	Update *wUpdateMsg
	Notif  *wNotif
	RR     wFamily
	Raw    []byte
}

// wOpts are the per-session options that change how an UPDATE must be read.
type wOpts struct {
	AddPath map[wFamily]bool // path identifiers present in NLRI of this family (direction: as received)
	AS2     bool             // AS_PATH carries 2-octet AS numbers
	MaxLen  int
}

func wParseHeader(h []byte) (typ uint8, length int, err error) {
	if len(h) != 19 {
		return 0, 0, fmt.Errorf("header length %d", len(h))
	}
	for i := 0; i < 16; i++ {
		if h[i] != 0xff {
			return 0, 0, fmt.Errorf("bad marker")
		}
	}
	length = int(binary.BigEndian.Uint16(h[16:18]))
	typ = h[18]
	if length < 19 {
		return typ, length, fmt.Errorf("bad length %d", length)
	}
	return typ, length, nil
}

func wParseBody(typ uint8, body []byte, o *wOpts) (*wMsg, error) {
	m := &wMsg{Type: typ, Len: len(body) + 19}
	switch typ {
	case wOpen:
		if len(body) < 10 {
			return nil, fmt.Errorf("short OPEN")
		}
		op := &wOpenMsg{Version: body[0], AS: binary.BigEndian.Uint16(body[1:3]), HoldTime: binary.BigEndian.Uint16(body[3:5])}
		op.ID, _ = netip.AddrFromSlice(body[5:9])
		ol := int(body[9])
		rest := body[10:]
		if ol != len(rest) {
			return nil, fmt.Errorf("OPEN opt len %d != %d", ol, len(rest))
		}
		for len(rest) > 0 {
			if len(rest) < 2 || len(rest) < 2+int(rest[1]) {
				return nil, fmt.Errorf("OPEN opt param overrun")
			}
			pt, pl := rest[0], int(rest[1])
			pv := rest[2 : 2+pl]
			rest = rest[2+pl:]
			if pt != 2 {
				op.OptOther++
				continue
			}
			for len(pv) > 0 {
				if len(pv) < 2 || len(pv) < 2+int(pv[1]) {
					return nil, fmt.Errorf("OPEN capability overrun")
				}
				op.Caps = append(op.Caps, wCap{Code: pv[0], Val: append([]byte(nil), pv[2:2+int(pv[1])]...)})
				pv = pv[2+int(pv[1]):]
			}
		}
		m.Open = op
	case wKeepalive:
		if len(body) != 0 {
			return nil, fmt.Errorf("KEEPALIVE with body")
		}
	case wNotification:
		if len(body) < 2 {
			return nil, fmt.Errorf("short NOTIFICATION")
		}
		m.Notif = &wNotif{Code: body[0], Sub: body[1], Data: append([]byte(nil), body[2:]...)}
	case wRouteRefresh:
		if len(body) != 4 {
			return nil, fmt.Errorf("ROUTE-REFRESH length %d", len(body))
		}
		m.RR = wFamily{binary.BigEndian.Uint16(body[0:2]), body[3]}
	case wUpdate:
		u, err := wParseUpdate(body, o)
		if err != nil {
			return nil, err
		}
		m.Update = u
	default:
		return nil, fmt.Errorf("unknown message type %d", typ)
	}
	return m, nil
}

func wParseUpdate(b []byte, o *wOpts) (*wUpdateMsg, error) {
	u := &wUpdateMsg{}
	if len(b) < 4 {
		return nil, fmt.Errorf("short UPDATE")
	}
	wl := int(binary.BigEndian.Uint16(b[0:2]))
	if 2+wl+2 > len(b) {
		return nil, fmt.Errorf("withdrawn length overrun")
	}
	var err error
	if u.Withdrawn, err = wParseNLRIs(b[2:2+wl], famV4, o); err != nil {
		return nil, fmt.Errorf("withdrawn: %w", err)
	}
	al := int(binary.BigEndian.Uint16(b[2+wl : 4+wl]))
	if 4+wl+al > len(b) {
		return nil, fmt.Errorf("attribute length overrun")
	}
	ab := b[4+wl : 4+wl+al]
	for len(ab) > 0 {
		if len(ab) < 3 {
			return nil, fmt.Errorf("attribute header overrun")
		}
		fl, ty := ab[0], ab[1]
		var l, hl int
		if fl&0x10 != 0 {
			if len(ab) < 4 {
				return nil, fmt.Errorf("attribute ext header overrun")
			}
			l, hl = int(binary.BigEndian.Uint16(ab[2:4])), 4
		} else {
			l, hl = int(ab[2]), 3
		}
		if hl+l > len(ab) {
			return nil, fmt.Errorf("attribute %d value overrun", ty)
		}
		a := wAttr{Flags: fl, Type: ty, Val: append([]byte(nil), ab[hl:hl+l]...)}
		u.Attrs = append(u.Attrs, a)
		ab = ab[hl+l:]
		switch ty {
		case 14:
			v := a.Val
			if len(v) < 5 {
				return nil, fmt.Errorf("short MP_REACH")
			}
			u.ReachFam = wFamily{binary.BigEndian.Uint16(v[0:2]), v[2]}
			nl := int(v[3])
			if 4+nl+1 > len(v) {
				return nil, fmt.Errorf("MP_REACH next hop overrun")
			}
			u.ReachNH = append([]byte(nil), v[4:4+nl]...)
			if u.Reach, err = wParseNLRIs(v[4+nl+1:], u.ReachFam, o); err != nil {
				return nil, fmt.Errorf("MP_REACH: %w", err)
			}
		case 15:
			v := a.Val
			if len(v) < 3 {
				return nil, fmt.Errorf("short MP_UNREACH")
			}
			u.UnreachOk = true
			u.UnreachFam = wFamily{binary.BigEndian.Uint16(v[0:2]), v[2]}
			if u.Unreach, err = wParseNLRIs(v[3:], u.UnreachFam, o); err != nil {
				return nil, fmt.Errorf("MP_UNREACH: %w", err)
			}
		}
	}
	if u.NLRI, err = wParseNLRIs(b[4+wl+al:], famV4, o); err != nil {
		return nil, fmt.Errorf("nlri: %w", err)
	}
	return u, nil
}

func wParseNLRIs(b []byte, f wFamily, o *wOpts) ([]wNLRI, error) {
	var out []wNLRI
	ap := o != nil && o.AddPath[f]
	for len(b) > 0 {
		var n wNLRI
		if ap {
			if len(b) < 4 {
				return nil, fmt.Errorf("path id overrun")
			}
			n.PathID = binary.BigEndian.Uint32(b[0:4])
			b = b[4:]
		}
		if len(b) < 1 {
			return nil, fmt.Errorf("prefix length overrun")
		}
		bits := int(b[0])
		nb := (bits + 7) / 8
		if 1+nb > len(b) {
			return nil, fmt.Errorf("prefix overrun (bits=%d have=%d)", bits, len(b)-1)
		}
		pb := b[1 : 1+nb]
		b = b[1+nb:]
		switch f {
		case famV4, famV6:
			max := 32
			if f == famV6 {
				max = 128
			}
			if bits > max {
				return nil, fmt.Errorf("prefix length %d > %d", bits, max)
			}
			n.Key = wPrefixString(pb, bits, f == famV6)
		case famVPN4, famVPN6:
			max := 32
			if f == famVPN6 {
				max = 128
			}
			if bits < 88 || bits-88 > max {
				return nil, fmt.Errorf("vpn prefix length %d", bits)
			}
			n.Label = uint32(pb[0])<<16 | uint32(pb[1])<<8 | uint32(pb[2])
			n.Key = wRDString(pb[3:11]) + ":" + wPrefixString(pb[11:], bits-88, f == famVPN6)
		case famRTC:
			if bits == 0 {
				n.Key = "default"
			} else if bits == 96 {
				n.Key = fmt.Sprintf("%d:%s", binary.BigEndian.Uint32(pb[0:4]), wExtCommString(pb[4:12]))
			} else {
				n.Key = fmt.Sprintf("rtc-partial/%d:%x", bits, pb)
			}
		default:
			n.Key = fmt.Sprintf("%x/%d", pb, bits)
		}
		out = append(out, n)
	}
	return out, nil
}

func wPrefixString(pb []byte, bits int, v6 bool) string {
	if v6 {
		var a [16]byte
		copy(a[:], pb)
		return netip.PrefixFrom(netip.AddrFrom16(a), bits).String()
	}
	var a [4]byte
	copy(a[:], pb)
	return netip.PrefixFrom(netip.AddrFrom4(a), bits).String()
}

func wRDString(b []byte) string {
	switch binary.BigEndian.Uint16(b[0:2]) {
	case 0:
		return fmt.Sprintf("%d:%d", binary.BigEndian.Uint16(b[2:4]), binary.BigEndian.Uint32(b[4:8]))
	case 1:
		return fmt.Sprintf("%d.%d.%d.%d:%d", b[2], b[3], b[4], b[5], binary.BigEndian.Uint16(b[6:8]))
	case 2:
		return fmt.Sprintf("%d:%d", binary.BigEndian.Uint32(b[2:6]), binary.BigEndian.Uint16(b[6:8]))
	}
	return fmt.Sprintf("rd-%x", b)
}

// wExtCommString renders the route-target forms used by the harness; anything else as hex.
func wExtCommString(b []byte) string {
	if len(b) != 8 {
		return fmt.Sprintf("%x", b)
	}
	if b[1] == 0x02 {
		switch b[0] &^ 0x40 {
		case 0x00:
			return fmt.Sprintf("rt:%d:%d", binary.BigEndian.Uint16(b[2:4]), binary.BigEndian.Uint32(b[4:8]))
		case 0x01:
			return fmt.Sprintf("rt:%d.%d.%d.%d:%d", b[2], b[3], b[4], b[5], binary.BigEndian.Uint16(b[6:8]))
		case 0x02:
			return fmt.Sprintf("rt:%d:%d", binary.BigEndian.Uint32(b[2:6]), binary.BigEndian.Uint16(b[6:8]))
		}
	}
	return fmt.Sprintf("ec:%x", b)
}

// ---------------------------------------------------------------- semantic view of attributes

type asSeg struct {
	Type uint8 // 1 SET, 2 SEQUENCE, 3 CONFED_SEQUENCE, 4 CONFED_SET
	ASNs []uint32
}

// rAttrs is the decoded, order-independent content of a route's attributes.
type rAttrs struct {
	Origin      int // -1 absent
	HasASPath   bool
	ASPath      []asSeg
	NextHop     string // NEXT_HOP or MP_REACH next hop(s), text
	MED         int64  // -1 absent
	LocalPref   int64  // -1 absent
	AtomicAgg   bool
	Aggregator  string
	Comms       []uint32
	Originator  string
	ClusterList []string
	ExtComms    []string
	LargeComms  []string
	AS4Path     string
	AS4Aggr     string
	AS4Segs     []asSeg          // AS4_PATH as decoded (not part of String())
	Other       map[uint8]string // type -> "flags(upper 3 bits):hex"
	Dups        []uint8          // attribute types seen more than once
}

func (a *rAttrs) clone() *rAttrs {
	b := *a
	b.ASPath = nil
	for _, s := range a.ASPath {
		b.ASPath = append(b.ASPath, asSeg{s.Type, append([]uint32(nil), s.ASNs...)})
	}
	b.Comms = append([]uint32(nil), a.Comms...)
	b.ClusterList = append([]string(nil), a.ClusterList...)
	b.ExtComms = append([]string(nil), a.ExtComms...)
	b.LargeComms = append([]string(nil), a.LargeComms...)
	b.Other = map[uint8]string{}
	for k, v := range a.Other {
		b.Other[k] = v
	}
	b.Dups = append([]uint8(nil), a.Dups...)
	return &b
}

func asPathString(p []asSeg) string {
	var sb strings.Builder
	for i, s := range p {
		if i > 0 {
			sb.WriteByte(' ')
		}
		o, c := "", ""
		switch s.Type {
		case 1:
			o, c = "{", "}"
		case 3:
			o, c = "(", ")"
		case 4:
			o, c = "[", "]"
		case 2:
		default:
			o, c = fmt.Sprintf("?%d<", s.Type), ">"
		}
		sb.WriteString(o)
		for j, a := range s.ASNs {
			if j > 0 {
				sb.WriteByte(' ')
			}
			fmt.Fprintf(&sb, "%d", a)
		}
		sb.WriteString(c)
	}
	return sb.String()
}

// String is canonical: two attribute sets are semantically equal iff their strings are equal.
func (a *rAttrs) String() string {
	var sb strings.Builder
	fmt.Fprintf(&sb, "origin=%d", a.Origin)
	if a.HasASPath {
		fmt.Fprintf(&sb, " aspath=[%s]", asPathString(a.ASPath))
	} else {
		sb.WriteString(" aspath=none")
	}
	fmt.Fprintf(&sb, " nh=%s med=%d lp=%d", a.NextHop, a.MED, a.LocalPref)
	if a.AtomicAgg {
		sb.WriteString(" atomic")
	}
	if a.Aggregator != "" {
		fmt.Fprintf(&sb, " aggr=%s", a.Aggregator)
	}
	if len(a.Comms) > 0 {
		c := append([]uint32(nil), a.Comms...)
		sort.Slice(c, func(i, j int) bool { return c[i] < c[j] })
		sb.WriteString(" comm=")
		for i, v := range c {
			if i > 0 {
				sb.WriteByte(',')
			}
			fmt.Fprintf(&sb, "%d:%d", v>>16, v&0xffff)
		}
	}
	if a.Originator != "" {
		fmt.Fprintf(&sb, " originator=%s", a.Originator)
	}
	if len(a.ClusterList) > 0 {
		fmt.Fprintf(&sb, " cluster=%s", strings.Join(a.ClusterList, ","))
	}
	if len(a.ExtComms) > 0 {
		e := append([]string(nil), a.ExtComms...)
		sort.Strings(e)
		fmt.Fprintf(&sb, " ext=%s", strings.Join(e, ","))
	}
	if len(a.LargeComms) > 0 {
		e := append([]string(nil), a.LargeComms...)
		sort.Strings(e)
		fmt.Fprintf(&sb, " large=%s", strings.Join(e, ","))
	}
	if a.AS4Path != "" {
		fmt.Fprintf(&sb, " as4path=%s", a.AS4Path)
	}
	if a.AS4Aggr != "" {
		fmt.Fprintf(&sb, " as4aggr=%s", a.AS4Aggr)
	}
	if len(a.Other) > 0 {
		ks := make([]int, 0, len(a.Other))
		for k := range a.Other {
			ks = append(ks, int(k))
		}
		sort.Ints(ks)
		for _, k := range ks {
			fmt.Fprintf(&sb, " attr%d=%s", k, a.Other[uint8(k)])
		}
	}
	if len(a.Dups) > 0 {
		fmt.Fprintf(&sb, " dups=%v", a.Dups)
	}
	return sb.String()
}

func wParseASPath(v []byte, as2 bool) ([]asSeg, error) {
	var out []asSeg
	w := 4
	if as2 {
		w = 2
	}
	for len(v) > 0 {
		if len(v) < 2 {
			return nil, fmt.Errorf("AS_PATH segment header overrun")
		}
		t, n := v[0], int(v[1])
		if len(v) < 2+n*w {
			return nil, fmt.Errorf("AS_PATH segment overrun")
		}
		s := asSeg{Type: t}
		for i := 0; i < n; i++ {
			if as2 {
				s.ASNs = append(s.ASNs, uint32(binary.BigEndian.Uint16(v[2+i*2:])))
			} else {
				s.ASNs = append(s.ASNs, binary.BigEndian.Uint32(v[2+i*4:]))
			}
		}
		out = append(out, s)
		v = v[2+n*w:]
	}
	return out, nil
}

func nhString(b []byte, fam wFamily) string {
	// VPN next hops carry an 8-byte zero RD in front of each address
	if fam == famVPN4 || fam == famVPN6 {
		var parts []string
		for len(b) >= 12 {
			if len(b) >= 24 && (len(b) == 24 || len(b) == 48) {
				var a [16]byte
				copy(a[:], b[8:24])
				parts = append(parts, netip.AddrFrom16(a).String())
				b = b[24:]
			} else {
				var a [4]byte
				copy(a[:], b[8:12])
				parts = append(parts, netip.AddrFrom4(a).String())
				b = b[12:]
			}
		}
		return strings.Join(parts, "+")
	}
	switch len(b) {
	case 4:
		var a [4]byte
		copy(a[:], b)
		return netip.AddrFrom4(a).String()
	case 16:
		var a [16]byte
		copy(a[:], b)
		return netip.AddrFrom16(a).String()
	case 32:
		var a, l [16]byte
		copy(a[:], b[:16])
		copy(l[:], b[16:])
		return netip.AddrFrom16(a).String() + "+" + netip.AddrFrom16(l).String()
	}
	return fmt.Sprintf("nh-%x", b)
}

// wDecodeAttrs turns the attribute list of an UPDATE into semantic content. MP_REACH/MP_UNREACH are
// skipped (handled by the caller); nextHop for MP families is passed in by the caller.
func wDecodeAttrs(attrs []wAttr, as2 bool) (*rAttrs, error) {
	r := &rAttrs{Origin: -1, MED: -1, LocalPref: -1, Other: map[uint8]string{}}
	seen := map[uint8]bool{}
	for _, a := range attrs {
		if seen[a.Type] {
			r.Dups = append(r.Dups, a.Type)
			continue
		}
		seen[a.Type] = true
		v := a.Val
		switch a.Type {
		case 1:
			if len(v) != 1 {
				return nil, fmt.Errorf("ORIGIN length %d", len(v))
			}
			r.Origin = int(v[0])
		case 2:
			p, err := wParseASPath(v, as2)
			if err != nil {
				return nil, err
			}
			r.HasASPath = true
			r.ASPath = p
		case 3:
			if len(v) != 4 {
				return nil, fmt.Errorf("NEXT_HOP length %d", len(v))
			}
			r.NextHop = nhString(v, famV4)
		case 4:
			if len(v) != 4 {
				return nil, fmt.Errorf("MED length %d", len(v))
			}
			r.MED = int64(binary.BigEndian.Uint32(v))
		case 5:
			if len(v) != 4 {
				return nil, fmt.Errorf("LOCAL_PREF length %d", len(v))
			}
			r.LocalPref = int64(binary.BigEndian.Uint32(v))
		case 6:
			r.AtomicAgg = true
		case 7:
			r.Aggregator = fmt.Sprintf("%x", v)
			if len(v) == 8 {
				r.Aggregator = fmt.Sprintf("%d@%s", binary.BigEndian.Uint32(v[0:4]), nhString(v[4:8], famV4))
			} else if len(v) == 6 {
				r.Aggregator = fmt.Sprintf("%d@%s", binary.BigEndian.Uint16(v[0:2]), nhString(v[2:6], famV4))
			}
		case 8:
			if len(v)%4 != 0 {
				return nil, fmt.Errorf("COMMUNITIES length %d", len(v))
			}
			for i := 0; i < len(v); i += 4 {
				r.Comms = append(r.Comms, binary.BigEndian.Uint32(v[i:]))
			}
		case 9:
			if len(v) != 4 {
				return nil, fmt.Errorf("ORIGINATOR_ID length %d", len(v))
			}
			r.Originator = nhString(v, famV4)
		case 10:
			if len(v)%4 != 0 {
				return nil, fmt.Errorf("CLUSTER_LIST length %d", len(v))
			}
			for i := 0; i < len(v); i += 4 {
				r.ClusterList = append(r.ClusterList, nhString(v[i:i+4], famV4))
			}
		case 14, 15:
		case 16:
			if len(v)%8 != 0 {
				return nil, fmt.Errorf("EXT_COMMUNITIES length %d", len(v))
			}
			for i := 0; i < len(v); i += 8 {
				r.ExtComms = append(r.ExtComms, wExtCommString(v[i:i+8]))
			}
		case 17:
			p, err := wParseASPath(v, false)
			if err != nil {
				return nil, err
			}
			r.AS4Path = "[" + asPathString(p) + "]"
			r.AS4Segs = p
		case 18:
			r.AS4Aggr = fmt.Sprintf("%x", v)
		case 32:
			if len(v)%12 != 0 {
				return nil, fmt.Errorf("LARGE_COMMUNITY length %d", len(v))
			}
			for i := 0; i < len(v); i += 12 {
				r.LargeComms = append(r.LargeComms, fmt.Sprintf("%d:%d:%d", binary.BigEndian.Uint32(v[i:]), binary.BigEndian.Uint32(v[i+4:]), binary.BigEndian.Uint32(v[i+8:])))
			}
		default:
			r.Other[a.Type] = fmt.Sprintf("%02x:%x", a.Flags&0xe0, v)
		}
	}
	return r, nil
}

// ---------------------------------------------------------------- encoding helpers for what the harness sends

func wHeader(typ uint8, bodyLen int) []byte {
	h := make([]byte, 19, 19+bodyLen)
	for i := 0; i < 16; i++ {
		h[i] = 0xff
	}
	binary.BigEndian.PutUint16(h[16:], uint16(19+bodyLen))
	h[18] = typ
	return h
}

func wEncodeAttr(flags, typ uint8, val []byte) []byte {
	if len(val) > 255 {
		flags |= 0x10
	}
	var b []byte
	if flags&0x10 != 0 {
		b = []byte{flags, typ, byte(len(val) >> 8), byte(len(val))}
	} else {
		b = []byte{flags, typ, byte(len(val))}
	}
	return append(b, val...)
}

func wEncodePrefix(p netip.Prefix) []byte {
	bits := p.Bits()
	nb := (bits + 7) / 8
	a := p.Masked().Addr().AsSlice()
	return append([]byte{byte(bits)}, a[:nb]...)
}

func wEncodeASPath(segs []asSeg, as2 bool) []byte {
	var b []byte
	for _, s := range segs {
		b = append(b, s.Type, byte(len(s.ASNs)))
		for _, a := range s.ASNs {
			if as2 {
				if a > 65535 {
					a = 23456
				}
				b = append(b, byte(a>>8), byte(a))
			} else {
				b = append(b, byte(a>>24), byte(a>>16), byte(a>>8), byte(a))
			}
		}
	}
	return b
}

func u32b(v uint32) []byte { return []byte{byte(v >> 24), byte(v >> 16), byte(v >> 8), byte(v)} }
func u16b(v uint16) []byte { return []byte{byte(v >> 8), byte(v)} }
