package server

// Family "zebra" (C19 stream clause for the Zebra API, C20): a simulated zebra daemon accepts the
// connection of gobgp's zebra client over the simulated network and talks ZAPI framing (versions
// 2-6) written here from the header layouts: it answers with one well-framed message, then feeds
// the client frames with arbitrary command numbers and arbitrary bodies, damaged headers, truncated
// frames, fragmented delivery, and finally closes or resets the connection, while a BGP neighbour
// announces routes (so that the client has routes to send).  Oracles: what gobgp writes to zebra is
// a sequence of well-framed ZAPI messages of the negotiated version (a token is never longer than
// its declared length); no crash, no hang and no livelock (the run reaches quiescence after zebra
// went away); Stop releases everything.

import (
	"context"
	"encoding/binary"
	"fmt"
	"io"
	"net"
	"sync"
	"testing/synctest"
	"time"

	"github.com/osrg/gobgp/v4/api"
)

func init() {
	families["zebra"] = &familyImpl{setup: zebraSetup, op: zebraOp, check: zebraCheck}
	extraGenerators["zebra"] = genZebra
}

const zebraAddr = "10.9.3.1:2601"

type simZebra struct {
	w       *simWorld
	mu      sync.Mutex
	version uint8
	conn    *simConn
	conns   int
	rxMsgs  int
	enabled bool
	mute    bool // accept the connection but never send the first message
	nht     *nhtState
	half    bool // zebra has shut down its receiving side
}

func zHeaderSize(v uint8) int {
	switch v {
	case 3, 4:
		return 8
	case 5, 6:
		return 10
	}
	return 6
}

func zMarker(v uint8) byte {
	if v > 3 {
		return 0xfe
	}
	return 0xff
}

func zFrame(v uint8, vrf uint32, cmd uint16, body []byte) []byte {
	hs := zHeaderSize(v)
	b := make([]byte, hs, hs+len(body))
	binary.BigEndian.PutUint16(b[0:2], uint16(hs+len(body)))
	b[2], b[3] = zMarker(v), v
	switch v {
	case 2:
		binary.BigEndian.PutUint16(b[4:6], cmd)
	case 3, 4:
		binary.BigEndian.PutUint16(b[4:6], uint16(vrf))
		binary.BigEndian.PutUint16(b[6:8], cmd)
	default:
		binary.BigEndian.PutUint32(b[4:8], vrf)
		binary.BigEndian.PutUint16(b[8:10], cmd)
	}
	return append(b, body...)
}

func (w *simWorld) zebra() *simZebra { return w.fam.(*simZebra) }

func zebraSetup(w *simWorld) error {
	z := &simZebra{w: w, version: 6, nht: &nhtState{reach: map[string]int64{}, ann: map[string]map[int]uint32{}}}
	w.fam = z
	w.net.listen(zebraAddr, &simListener{mode: "accept", handle: func(c *simConn) { z.serve(c) }})
	return nil
}

// serve reads what gobgp writes and checks its framing.
func (z *simZebra) serve(conn *simConn) {
	z.mu.Lock()
	z.conns++
	z.conn = conn
	v := z.version
	mute := z.mute
	z.mu.Unlock()
	z.w.logf("zebra: connection %d from gobgp", z.conns)
	z.w.probe("zebra_connect")
	if !mute {
		// the client waits for a first message before it goes on
		// (a real zebra answers the client's HELLO / ROUTER_ID_ADD / INTERFACE_ADD with several
		// messages; a client probing with another version reads a header of another size and must
		// not be left waiting for bytes that never come)
		for i := 0; i < 4; i++ {
			conn.Write(zFrame(v, 0, 0xfff0, []byte{1, 2, 3}))
		}
	}
	defer func() {
		z.mu.Lock()
		half := z.half
		z.mu.Unlock()
		if !half {
			conn.Close()
		}
		// (half-closed: zebra keeps its sending side open and silent; the connection goes away
		// when gobgp closes it)
	}()
	for {
		h := make([]byte, 4)
		if _, err := io.ReadFull(conn, h); err != nil {
			z.w.logf("zebra: connection ended: %v", err)
			return
		}
		l := int(binary.BigEndian.Uint16(h[0:2]))
		ver := h[3]
		hs := zHeaderSize(ver)
		if ver < 2 || ver > 6 || h[2] != zMarker(ver) || l < hs || l > 16384 {
			z.w.violate("C19", "zapi-emitted-framing", "zebra", fmt.Sprintf("gobgp wrote a ZAPI header len=%d marker=%#x version=%d", l, h[2], ver))
			return
		}
		if ver != v {
			// version probing: the client tries its configured version first; not a violation
			z.w.probe("zebra_other_version_seen")
		}
		rest := make([]byte, l-4)
		if _, err := io.ReadFull(conn, rest); err != nil {
			z.w.logf("zebra: connection ended inside a message: %v", err)
			return
		}
		z.mu.Lock()
		z.rxMsgs++
		z.mu.Unlock()
		z.w.probe("zebra_message_from_gobgp")
	}
}

// ---------------------------------------------------------------- mode "nht": next-hop tracking
//
// C03 names "reachable next hop" as the first step of the decision process.  In gobgp reachability
// comes from zebra: NEXTHOP_UPDATE messages (an empty next-hop list = unreachable) mark every path
// through that next hop invalid or valid again.  Two neighbours announce the same prefixes, the
// first one with the better (shorter) AS_PATH; zebra (ZAPI 6, frr 8.1 layout written here) reports
// their next hops reachable / unreachable / reachable again with drawn metrics.  Oracle at
// quiescent points: the best path of every prefix is the better route whose next hop is not known
// to be unreachable (a first "unreachable" for a next hop never reported reachable is ignored, as
// the client documents).

func zNexthopUpdate(nh string, metric int64) []byte {
	ip := net.ParseIP(nh).To4()
	b := []byte{0, 0, 0, 0, 0, 2, 32}
	b = append(b, ip...)
	b = append(b, 2, 0, 0, 0) // route type connect, instance 0, distance 0
	if metric < 0 {
		b = append(b, 0, 0, 0, 0, 0)
		return zFrame(6, 0, 22, b)
	}
	m := make([]byte, 4)
	binary.BigEndian.PutUint32(m, uint32(metric))
	b = append(b, m...)
	b = append(b, 1)          // one next hop
	b = append(b, 0, 0, 0, 0) // vrf
	b = append(b, 3, 0)       // IPv4+ifindex, flags
	b = append(b, ip...)
	b = append(b, 0, 0, 0, 1)
	return zFrame(6, 0, 22, b)
}

func genZebraNHT(seed uint64, tier string) *Script {
	g := newGen(seed)
	sc := &Script{Family: "zebra", Mode: "nht", Seed: seed}
	sc.SchedSeed = g.u64() | 1
	sc.YieldN = pick(g, yieldChoices)
	sc.SelShuffle = g.p(70)
	sc.Global = GlobalCfg{AS: 65000, RouterID: "10.0.0.1"}
	for i := 0; i < 2; i++ {
		sc.Peers = append(sc.Peers, PeerCfg{Idx: i, Addr: peerAddr(i), RouterID: peerRID(i), Kind: "ebgp", AS: uint32(65001 + i), Families: []string{"ipv4-unicast"}})
	}
	var ops []Op
	add := func(o Op) { o.Actor = 0; ops = append(ops, o) }
	add(Op{Kind: "up", Peer: 0})
	add(Op{Kind: "up", Peer: 1})
	add(Op{Kind: "zenable", N: 6, Arg: "", Arg2: "same", Hex: "nht"})
	serial := 0
	pfx := []string{"10.1.0.0/24", "10.1.1.0/24", "10.2.0.0/16"}
	ann := func(p int, x string) {
		serial++
		path := []uint32{uint32(65001 + p)}
		if p == 1 {
			path = append(path, 64999) // the second neighbour's route is the worse one
		}
		add(Op{Kind: "ann", Peer: p, Family: "ipv4-unicast", Prefix: x, Tag: mkTag(p, serial), Attrs: &AttrSpec{Origin: 0, ASPath: []asSeg{{2, path}}, NextHop: peerAddr(p), MED: -1, LocalPref: -1}})
	}
	for _, x := range pfx[:g.rng(1, 3)] {
		ann(0, x)
		ann(1, x)
	}
	n := g.rng(3, 10)
	if tier == "thorough" {
		n = g.rng(6, 24)
	}
	for i := 0; i < n; i++ {
		r := g.n(100)
		switch {
		case r < 70:
			p := g.n(2)
			m := int64(pick(g, []int{-1, -1, 10, 10, 20}))
			o := Op{Kind: "znh", Arg: peerAddr(p), N: int(m)}
			if g.p(35) {
				// a second update written back to back with the first (one segment on the wire)
				o.Prefix, o.Count, o.PathID = peerAddr(g.n(2)), pick(g, []int{-1, 10, 20}), 1
			}
			add(o)
		case r < 82:
			ann(g.n(2), pick(g, pfx))
		case r < 90:
			add(Op{Kind: "wd", Peer: g.n(2), Family: "ipv4-unicast", Prefix: pick(g, pfx)})
		default:
			add(Op{Kind: "wait", N: pick(g, []int{500, 3000})})
		}
		add(Op{Kind: "nhtcheck"})
	}
	sc.Phases = []Phase{{Ops: ops, Settle: 3, Check: true}}
	sc.Final = pick(g, []string{"stop", "stopbgp"})
	return sc
}

// nhtState is the model of mode nht.
type nhtState struct {
	reach map[string]int64 // next hop -> metric, -1 unreachable (only next hops reported at least once reachable)
	ann   map[string]map[int]uint32
}

func (w *simWorld) nhtCheck() {
	z := w.zebra()
	st := z.nht
	synctest.Wait()
	glob, err := w.listPaths(api.TableType_TABLE_TYPE_GLOBAL, "", famV4, false)
	if err != nil {
		w.harnessError("ListPath: %v", err)
		return
	}
	w.mu.Lock()
	w.checks++
	w.nonEmpty++
	w.mu.Unlock()
	for _, pfx := range sortedKeys(st.ann) {
		want := -1
		for _, p := range []int{0, 1} {
			if _, ok := st.ann[pfx][p]; !ok {
				continue
			}
			if m, known := st.reach[peerAddr(p)]; known && m < 0 {
				continue
			}
			want = p
			break
		}
		got := -1
		for _, rp := range glob[pfx] {
			if rp.Best {
				for p := range w.peers {
					if rp.Src == peerAddr(p) {
						got = p
					}
				}
			}
		}
		allDown := want < 0 && len(st.ann[pfx]) > 0
		if allDown {
			// every candidate's next hop is unreachable: nothing may be usable; gobgp keeps the
			// paths (marked invalid) and reports one of them first - not judged
			w.probe("nht_all_next_hops_unreachable")
			continue
		}
		if got != want {
			w.violate("C03", "best-path-next-hop-reachability", pfx, fmt.Sprintf("best path is from neighbour %d, expected %d (next-hop states reported by zebra: %v; announced by %v)", got, want, st.reach, st.ann[pfx]))
		} else if want >= 0 {
			w.probe("nht_best_compared")
		}
	}
}

func genZebra(seed uint64, tier, mode string) *Script {
	if mode == "nht" {
		return genZebraNHT(seed, tier)
	}
	g := newGen(seed)
	sc := &Script{Family: "zebra", Mode: mode, Seed: seed}
	sc.SchedSeed = g.u64() | 1
	sc.YieldN = pick(g, yieldChoices)
	sc.SelShuffle = g.p(70)
	sc.Global = GlobalCfg{AS: 65000, RouterID: "10.0.0.1"}
	sc.Net.Fragment = pick(g, []int{0, 0, 1, 3, 7})
	sc.Peers = []PeerCfg{{Idx: 0, Addr: peerAddr(0), RouterID: peerRID(0), Kind: "ebgp", AS: 65001, Families: []string{"ipv4-unicast", "ipv6-unicast"}}}
	var ops []Op
	add := func(o Op) { o.Actor = 0; ops = append(ops, o) }
	add(Op{Kind: "up", Peer: 0})
	ver := g.rng(2, 6)
	soft := pick(g, []string{"", "", "frr7.2", "frr7.5", "frr8.1", "cumulus", "quagga", "frr4", "frr6"})
	add(Op{Kind: "zenable", N: ver, Arg: soft, Count: pick(g, []int{0, 0, 100}), Arg2: pick(g, []string{"same", "same", "same", "other"})})
	n := g.rng(4, 14)
	if tier == "thorough" {
		n = g.rng(8, 40)
	}
	serial := 0
	for i := 0; i < n; i++ {
		r := g.n(100)
		switch {
		case r < 50:
			add(Op{Kind: "zframes", Count: g.rng(1, 12), N: int(g.u64() >> 33), Arg: pick(g, []string{"fuzz", "fuzz", "fuzz", "short", "cmdsweep"})})
		case r < 60:
			add(Op{Kind: "zframes", Count: 1, N: int(g.u64() >> 33), Arg: pick(g, []string{"badmarker", "badversion", "lenshort", "lenhuge", "truncated"})})
		case r < 80:
			serial++
			pfx := pick(g, []string{"10.1.0.0/24", "10.1.1.0/24", "10.2.0.0/16"})
			fam := "ipv4-unicast"
			nh := peerAddr(0)
			if g.p(25) {
				pfx, fam, nh = pick(g, []string{"2001:db8:1::/48", "2001:db8:2::/48"}), "ipv6-unicast", "2001:db8::2"
			}
			add(Op{Kind: "ann", Peer: 0, Family: fam, Prefix: pfx, Tag: mkTag(0, serial), Attrs: &AttrSpec{Origin: 0, ASPath: []asSeg{{2, []uint32{65001}}}, NextHop: nh, MED: -1, LocalPref: -1}})
		case r < 88:
			add(Op{Kind: "wd", Peer: 0, Family: "ipv4-unicast", Prefix: pick(g, []string{"10.1.0.0/24", "10.1.1.0/24", "10.2.0.0/16"})})
		case r < 94:
			add(Op{Kind: "zclose", Arg: pick(g, []string{"close", "reset", "halfclose", "halfclose"})})
		default:
			add(Op{Kind: "wait", N: pick(g, []int{500, 3000, 20000})})
		}
	}
	if g.p(50) {
		add(Op{Kind: "zclose", Arg: pick(g, []string{"close", "reset"})})
	}
	add(Op{Kind: "wait", N: 3000})
	sc.Phases = []Phase{{Ops: ops, Settle: 3, Check: true}}
	sc.Final = pick(g, []string{"stop", "stopbgp"})
	return sc
}

func zebraSettle() {
	time.Sleep(50 * time.Millisecond)
	synctest.Wait()
}

func zebraOp(w *simWorld, actor int, op *Op) {
	z := w.zebra()
	synctest.Wait()
	switch op.Kind {
	case "up":
		if r := w.peers[op.Peer].connectPassive(false, 20*time.Second); !r.ok {
			w.harnessError("zebra: peer: %s", r.reason)
		}
		zebraSettle()
	case "zenable":
		if z.enabled {
			return
		}
		z.mu.Lock()
		z.version = uint8(op.N)
		if op.Arg2 == "other" {
			// zebra speaks another version than the one configured: the client must find it by probing
			z.version = uint8(2 + (op.N-2+1+op.Count%3)%5)
		}
		z.mu.Unlock()
		err := w.s.EnableZebra(context.Background(), &api.EnableZebraRequest{Url: "tcp:" + zebraAddr, Version: uint32(op.N), SoftwareName: op.Arg, MplsLabelRangeSize: uint32(op.Count), NexthopTriggerEnable: op.Hex == "nht", NexthopTriggerDelay: 1})
		w.logf("EnableZebra version=%d software=%q (zebra speaks %d): %v", op.N, op.Arg, z.version, err)
		if err == nil {
			z.enabled = true
			w.probe(fmt.Sprintf("zebra_enabled_v%d", z.version))
		} else {
			w.probe("zebra_enable_failed")
		}
		zebraSettle()
	case "zframes":
		z.mu.Lock()
		conn, v := z.conn, z.version
		z.mu.Unlock()
		if conn == nil || conn.isClosed() {
			return
		}
		g := newGen(uint64(op.N))
		for i := 0; i < op.Count; i++ {
			body := make([]byte, g.n(90))
			for j := range body {
				body[j] = byte(g.u64())
			}
			cmd := uint16(g.n(140))
			var b []byte
			switch op.Arg {
			case "short":
				k := g.n(4)
				if k > len(body) {
					k = len(body)
				}
				b = zFrame(v, uint32(g.n(3)), cmd, body[:k])
			case "cmdsweep":
				b = zFrame(v, 0, uint16((op.N+i)%140), body)
			case "badmarker":
				b = zFrame(v, 0, cmd, body)
				b[2] ^= 0x55
			case "badversion":
				b = zFrame(v, 0, cmd, body)
				b[3] = byte(g.n(9))
			case "lenshort":
				b = zFrame(v, 0, cmd, body)
				binary.BigEndian.PutUint16(b[0:2], uint16(g.n(zHeaderSize(v))))
			case "lenhuge":
				b = zFrame(v, 0, cmd, body)
				binary.BigEndian.PutUint16(b[0:2], uint16(len(b)+1+g.n(60000)))
			case "truncated":
				b = zFrame(v, 0, cmd, body)
				b = b[:1+g.n(len(b)-1)]
			default:
				b = zFrame(v, uint32(g.n(3)), cmd, body)
			}
			if _, err := conn.Write(b); err != nil {
				break
			}
			w.net.stats.fire("zapi_" + op.Arg)
		}
		zebraSettle()
	case "znh":
		z.mu.Lock()
		conn := z.conn
		z.mu.Unlock()
		if conn == nil || conn.isClosed() {
			return
		}
		var wire []byte
		type upd struct {
			nh string
			m  int64
		}
		upds := []upd{{op.Arg, int64(op.N)}}
		if op.PathID == 1 {
			upds = append(upds, upd{op.Prefix, int64(op.Count)})
		}
		for _, u := range upds {
			m := u.m
			if m >= 0 {
				z.nht.reach[u.nh] = m
			} else if _, known := z.nht.reach[u.nh]; known {
				z.nht.reach[u.nh] = -1
			}
			// an update for a next hop that no route uses makes the client unregister and forget it
			used := false
			for _, by := range z.nht.ann {
				for p := range by {
					if peerAddr(p) == u.nh {
						used = true
					}
				}
			}
			if !used {
				delete(z.nht.reach, u.nh)
				w.probe("nht_update_for_unused_next_hop")
			}
			wire = append(wire, zNexthopUpdate(u.nh, m)...)
			w.net.stats.fire("zapi_nexthop_update")
			if m < 0 {
				w.probe("nht_unreachable_sent")
			} else {
				w.probe("nht_reachable_sent")
			}
		}
		if len(upds) > 1 {
			w.probe("nht_updates_back_to_back")
		}
		conn.Write(wire)
		zebraSettle()
	case "nhtcheck":
		time.Sleep(2 * time.Second)
		w.nhtCheck()
	case "zclose":
		z.mu.Lock()
		conn := z.conn
		z.mu.Unlock()
		if conn == nil || conn.isClosed() {
			return
		}
		switch op.Arg {
		case "reset":
			w.net.resetPair(conn)
			w.net.stats.fire("conn_reset")
		case "halfclose":
			// zebra stops receiving: gobgp's writes fail while its reads keep blocking
			z.mu.Lock()
			z.half = true
			z.mu.Unlock()
			conn.r.setBroken()
		default:
			conn.Close()
		}
		w.probe("zebra_closed")
		zebraSettle()
	case "wait":
		time.Sleep(time.Duration(op.N) * time.Millisecond)
		synctest.Wait()
	case "ann":
		p := w.peers[op.Peer]
		r := &annRoute{Tag: op.Tag, Fam: famByName(op.Family), Prefix: op.Prefix, Spec: op.Attrs, Src: op.Peer}
		w.mu.Lock()
		w.tags[op.Tag] = r
		w.mu.Unlock()
		if p.announce(r) {
			if z.nht.ann[op.Prefix] == nil {
				z.nht.ann[op.Prefix] = map[int]uint32{}
			}
			z.nht.ann[op.Prefix][op.Peer] = op.Tag
		}
		zebraSettle()
	case "wd":
		w.peers[op.Peer].withdraw(famByName(op.Family), op.Prefix, 0)
		if z.nht.ann[op.Prefix] != nil {
			delete(z.nht.ann[op.Prefix], op.Peer)
			if len(z.nht.ann[op.Prefix]) == 0 {
				delete(z.nht.ann, op.Prefix)
			}
		}
		zebraSettle()
	default:
		w.harnessError("zebra: unknown op %s", op.Kind)
	}
}

func zebraCheck(w *simWorld, phase int) {
	z := w.zebra()
	w.mu.Lock()
	w.checks++
	w.nonEmpty++
	w.mu.Unlock()
	z.mu.Lock()
	n := z.rxMsgs
	z.mu.Unlock()
	w.addStateFP(fmt.Sprintf("zebra rx=%d conns=%d enabled=%v", n, z.conns, z.enabled))
}
