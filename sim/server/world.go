package server

// simWorld: one simulated run - a real BgpServer plus scripted neighbours on the in-memory
// network, inside a synctest bubble.  Shared by every family.

import (
	"context"
	"crypto/sha256"
	"encoding/binary"
	"encoding/json"
	"fmt"
	"log/slog"
	"net"
	"net/netip"
	"os"
	"regexp"
	"runtime"
	"sort"
	"strconv"
	"strings"
	"sync"
	"sync/atomic"
	"testing"
	"testing/synctest"
	"time"

	"github.com/osrg/gobgp/v4/api"
	"github.com/osrg/gobgp/v4/pkg/apiutil"
	"github.com/osrg/gobgp/v4/pkg/packet/bgp"
)

type Violation struct {
	Prop    string `json:"prop"`
	Clause  string `json:"clause"`
	Subject string `json:"subject"`
	Detail  string `json:"detail"`
	At      string `json:"at"`
}

func (v Violation) Class() string { return v.Prop + "/" + v.Clause }

type RunResult struct {
	Seed        uint64         `json:"seed"`
	Family      string         `json:"family"`
	Mode        string         `json:"mode,omitempty"`
	OK          bool           `json:"ok"`
	Violations  []Violation    `json:"violations,omitempty"`
	HarnessErr  string         `json:"harness_error,omitempty"`
	SimSeconds  float64        `json:"sim_seconds"`
	WallMs      float64        `json:"wall_ms"`
	Picks       uint64         `json:"picks"`
	Draws       uint64         `json:"draws"`
	YieldPoints uint64         `json:"yield_points"`
	Yields      uint64         `json:"yields"`
	Preempts    uint64         `json:"preempts"`
	SchedSig    string         `json:"sched_sig"`
	EventHash   string         `json:"event_hash"`
	StateFPs    []string       `json:"state_fps,omitempty"`
	Faults      map[string]int `json:"faults,omitempty"`
	Probes      map[string]int `json:"probes,omitempty"`
	Checks      int            `json:"checks"`
	NonEmpty    int            `json:"nonempty_checks"`
	Ops         int            `json:"ops"`
	Events      int            `json:"events"`
	Cells       []string       `json:"cells,omitempty"`
}

type simWorld struct {
	t        *testing.T
	sc       *Script
	s        *BgpServer
	net      *simNet
	acceptCh chan net.Conn
	stopCh   chan struct{}
	peers    []*simPeer
	start    time.Time

	mu             sync.Mutex
	evlog          []string
	viols          []Violation
	probes         map[string]int
	local          map[viewKey]*annRoute
	tags           map[uint32]*annRoute
	grReleasedAll  time.Duration        // restarting speaker: instant the End-of-RIB condition was first seen to hold (0: not yet)
	grReleasedPeer map[int]bool         // restarting speaker: peers whose deferral timer has fired
	tagsPfx        map[string]*annRoute // "tag/prefix" -> announcement, for bursts whose routes share one tag (identical attribute sets)
	harnessEr      string
	stateFPs       []string
	checks         int
	nonEmpty       int
	opsDone        int
	cells          map[string]bool

	onPeerDown  func(*simPeer, string)
	fam         any
	bestS       *bestStream
	preShutdown []func()
	bfdAllowed  map[int]map[uint8]bool
	bfdSeen     map[int]int
	finalDump   string
	stopped     bool
}

func (w *simWorld) now() time.Duration { return time.Since(w.start) }

// vsimProgress counts harness activity (event-log lines and probes).  The watchdog outside the
// bubble uses it to tell a livelock (a goroutine of the daemon spinning: the scheduler keeps picking,
// but virtual time and the script stand still) from a long run.
var vsimProgress atomic.Uint64

func (w *simWorld) logf(format string, a ...any) {
	vsimProgress.Add(1)
	s := fmt.Sprintf("%9.3f ", w.now().Seconds()) + fmt.Sprintf(format, a...)
	w.mu.Lock()
	w.evlog = append(w.evlog, s)
	w.mu.Unlock()
}

func (w *simWorld) probe(name string) {
	vsimProgress.Add(1)
	w.mu.Lock()
	w.probes[name]++
	w.mu.Unlock()
}

func (w *simWorld) cell(name string) {
	w.mu.Lock()
	w.cells[name] = true
	w.mu.Unlock()
}

var stacksDumped bool

func (w *simWorld) violate(prop, clause, subject, detail string) {
	if os.Getenv("VSIM_STACKS") != "" && !stacksDumped {
		// debugging aid: where every goroutine stands at the first violation
		stacksDumped = true
		buf := make([]byte, 8<<20)
		n := runtime.Stack(buf, true)
		os.Stderr.Write(buf[:n])
	}
	v := Violation{Prop: prop, Clause: clause, Subject: subject, Detail: detail, At: fmt.Sprintf("%.3fs", w.now().Seconds())}
	w.mu.Lock()
	if len(w.viols) < 50 {
		w.viols = append(w.viols, v)
	}
	w.evlog = append(w.evlog, fmt.Sprintf("%9.3f VIOLATION %s %s %s: %s", w.now().Seconds(), prop, clause, subject, detail))
	w.mu.Unlock()
}

func (w *simWorld) harnessError(format string, a ...any) {
	w.mu.Lock()
	if w.harnessEr == "" {
		w.harnessEr = fmt.Sprintf(format, a...)
	}
	w.mu.Unlock()
}

func (w *simWorld) probeOpenSeen(p *simPeer, m *wMsg) {}

func (w *simWorld) applyNetCfg(a, b *simConn) {
	n := w.sc.Net
	for _, h := range []*simHalf{a.r, a.w} {
		h.latency = time.Duration(n.LatencyMs) * time.Millisecond
		h.fragment = n.Fragment
		h.fragDelay = time.Duration(n.FragDelay) * time.Millisecond
	}
}

func (w *simWorld) peerByAddr(a string) *simPeer {
	for _, p := range w.peers {
		if p.cfg.Addr == a {
			return p
		}
	}
	return nil
}

// ---------------------------------------------------------------- server setup

func (w *simWorld) startServer() error {
	if os.Getenv("VSIM_GOBGP_LOG") != "" {
		// debugging aid: the daemon's own log on stderr (never part of the event log)
		lv := &slog.LevelVar{}
		lv.Set(slog.LevelDebug)
		w.s = NewBgpServer(LoggerOption(slog.New(slog.NewTextHandler(os.Stderr, &slog.HandlerOptions{Level: lv})), lv))
	} else {
		w.s = NewBgpServer()
	}
	go w.s.Serve()
	g := w.sc.Global
	glob := &api.Global{Asn: g.AS, RouterId: g.RouterID, ListenPort: -1}
	if g.ConfedID != 0 {
		glob.Confederation = &api.Confederation{Enabled: true, Identifier: g.ConfedID, MemberAsList: g.ConfedMembers}
	}
	glob.RouteSelectionOptions = &api.RouteSelectionOptionsConfig{
		AlwaysCompareMed:        g.AlwaysCompareMed,
		IgnoreAsPathLength:      g.IgnoreASPathLen,
		ExternalCompareRouterId: g.ExternalCompareID,
	}
	if g.Multipath {
		glob.UseMultiplePaths = true
	}
	if g.GRRestarting {
		glob.GracefulRestart = &api.GracefulRestart{Enabled: true, RestartTime: 30}
	}
	if err := w.s.StartBgp(context.Background(), &api.StartBgpRequest{Global: glob}); err != nil {
		return err
	}
	w.acceptCh = make(chan net.Conn)
	ch := w.acceptCh
	if err := w.s.mgmtOperation(func() error { w.s.acceptCh = ch; return nil }, false); err != nil {
		return err
	}
	return nil
}

func (w *simWorld) apiPeer(c *PeerCfg) *api.Peer {
	p := &api.Peer{
		Conf:      &api.PeerConf{NeighborAddress: c.Addr, PeerAsn: c.AS, AllowOwnAsn: uint32(c.AllowOwnAS), ReplacePeerAsn: c.ReplacePeer, Vrf: c.Vrf},
		Transport: &api.Transport{PassiveMode: !c.Active},
		Timers:    &api.Timers{Config: &api.TimersConfig{}},
	}
	switch c.RemovePriv {
	case "all":
		p.Conf.RemovePrivate = api.RemovePrivate_REMOVE_PRIVATE_ALL
	case "replace":
		p.Conf.RemovePrivate = api.RemovePrivate_REMOVE_PRIVATE_REPLACE
	}
	if c.HoldTime != 0 {
		h := c.HoldTime
		if h < 0 {
			h = 0
		}
		p.Timers.Config.HoldTime = uint64(h)
		p.Timers.Config.KeepaliveInterval = uint64(h / 3)
	}
	p.Timers.Config.ConnectRetry = 5
	p.Timers.Config.IdleHoldTimeAfterReset = 5
	switch c.Kind {
	case "rrclient":
		p.RouteReflector = &api.RouteReflector{RouteReflectorClient: true}
	case "rsclient":
		p.RouteServer = &api.RouteServer{RouteServerClient: true}
	}
	for _, fn := range c.Families {
		f := famByName(fn)
		as := &api.AfiSafi{
			Config:   &api.AfiSafiConfig{Family: &api.Family{Afi: api.Family_Afi(f.AFI), Safi: api.Family_Safi(f.SAFI)}, Enabled: true},
			AddPaths: &api.AddPaths{Config: &api.AddPathsConfig{Receive: c.AddPathRecv, SendMax: uint32(c.SendMax)}},
		}
		if c.PrefixLimit > 0 {
			as.PrefixLimits = &api.PrefixLimit{Family: as.Config.Family, MaxPrefixes: uint32(c.PrefixLimit)}
		}
		if c.GR.Enabled {
			for _, gf := range c.GR.Families {
				if gf == fn {
					as.MpGracefulRestart = &api.MpGracefulRestart{Config: &api.MpGracefulRestartConfig{Enabled: true}}
				}
			}
			if c.GR.LLGR {
				for _, gf := range c.GR.LLGRFamilies {
					if gf == fn {
						as.LongLivedGracefulRestart = &api.LongLivedGracefulRestart{Config: &api.LongLivedGracefulRestartConfig{Enabled: true, RestartTime: uint32(c.GR.LLGRTime)}}
					}
				}
			}
		}
		p.AfiSafis = append(p.AfiSafis, as)
	}
	if c.GR.Enabled {
		p.GracefulRestart = &api.GracefulRestart{Enabled: true, RestartTime: uint32(c.GR.RestartTime), NotificationEnabled: c.GR.NotifEnabled,
			LonglivedEnabled: c.GR.LLGR, DeferralTime: uint32(c.GR.Deferral), LocalRestarting: w.sc.Global.GRRestarting}
	}
	if w.sc.Family == "bfd" {
		p.Bfd = bfdAPIConf(w.bfdExtra()[c.Addr])
	}
	if len(c.ImportPol) > 0 || len(c.ExportPol) > 0 {
		p.ApplyPolicy = &api.ApplyPolicy{}
		if len(c.ImportPol) > 0 {
			pa := &api.PolicyAssignment{Direction: api.PolicyDirection_POLICY_DIRECTION_IMPORT, DefaultAction: api.RouteAction_ROUTE_ACTION_ACCEPT}
			for _, n := range c.ImportPol {
				pa.Policies = append(pa.Policies, &api.Policy{Name: n})
			}
			p.ApplyPolicy.ImportPolicy = pa
		}
		if len(c.ExportPol) > 0 {
			pa := &api.PolicyAssignment{Direction: api.PolicyDirection_POLICY_DIRECTION_EXPORT, DefaultAction: api.RouteAction_ROUTE_ACTION_ACCEPT}
			for _, n := range c.ExportPol {
				pa.Policies = append(pa.Policies, &api.Policy{Name: n})
			}
			p.ApplyPolicy.ExportPolicy = pa
		}
	}
	return p
}

func (w *simWorld) addPeer(c *PeerCfg) error {
	err := w.s.AddPeer(context.Background(), &api.AddPeerRequest{Peer: w.apiPeer(c)})
	if err != nil {
		return err
	}
	if c.NoTAW {
		// treat-as-withdraw can only be switched off through the configuration file path
		// (viper); emulate it white-box before the first session.
		addr := netip.MustParseAddr(c.Addr)
		return w.s.mgmtOperation(func() error {
			pr := w.s.neighborMap[addr]
			pr.fsm.lock.Lock()
			conf := pr.fsm.pConf.ReadCopy()
			conf.ErrorHandling.Config.TreatAsWithdraw = false
			pr.fsm.pConf.Update(&conf)
			pr.fsm.lock.Unlock()
			return nil
		}, false)
	}
	return nil
}

// ---------------------------------------------------------------- run driver

type familyImpl struct {
	setup func(w *simWorld) error              // after server start and peers configured
	op    func(w *simWorld, actor int, op *Op) // execute one op (in the actor's goroutine)
	check func(w *simWorld, phase int)         // quiescent check
	final func(w *simWorld)                    // after shutdown
}

var families = map[string]*familyImpl{}

// runScript executes one script in a fresh bubble and returns the result.
// runScript executes a script; the metamorphic "reset" family runs its two variants and compares.
func runScript(t *testing.T, sc *Script, dump bool) *RunResult {
	if sc.Family == "reset" && sc.resetExtra().Variant == "" {
		mk := func(v string) *Script {
			c := *sc
			ex := sc.resetExtra()
			ex.Variant = v
			b, _ := json.Marshal(ex)
			c.Extra = b
			return &c
		}
		ra, da := runScriptOnce(t, mk("A"), dump)
		runtime.GC()
		rb, db := runScriptOnce(t, mk("B"), false)
		ra.WallMs += rb.WallMs
		ra.SimSeconds += rb.SimSeconds
		ra.Picks += rb.Picks
		ra.Draws += rb.Draws
		for k, v := range rb.Probes {
			ra.Probes[k+"_B"] += v
		}
		if rb.HarnessErr != "" && ra.HarnessErr == "" {
			ra.HarnessErr = "variant B: " + rb.HarnessErr
		}
		for _, v := range rb.Violations {
			v.Subject = "variant B: " + v.Subject
			ra.Violations = append(ra.Violations, v)
		}
		if ra.HarnessErr == "" && len(ra.Violations) == 0 && da != db {
			ra.Violations = append(ra.Violations, Violation{Prop: "C15", Clause: "reset-differs-from-fresh-evaluation", Subject: "final Loc-RIB / views",
				Detail: "A = history under the old policy, then policy change + soft reset; B = the same history under the new policy from the start\n(- only in A, + only in B)\n" + diffLines(da, db)})
		}
		ra.OK = len(ra.Violations) == 0 && ra.HarnessErr == ""
		return ra
	}
	r, _ := runScriptOnce(t, sc, dump)
	return r
}

func runScriptOnce(t *testing.T, sc *Script, dump bool) (*RunResult, string) {
	res := &RunResult{Seed: sc.Seed, Family: sc.Family, Mode: sc.Mode}
	impl := families[sc.Family]
	if impl == nil {
		res.HarnessErr = "unknown family " + sc.Family
		return res, ""
	}
	wall := time.Now()
	var w *simWorld
	panicked := ""
	func() {
		defer func() {
			if r := recover(); r != nil {
				panicked = fmt.Sprint(r)
			}
		}()
		synctest.Test(t, func(t *testing.T) {
			w = &simWorld{t: t, sc: sc, probes: map[string]int{}, local: map[viewKey]*annRoute{}, tags: map[uint32]*annRoute{}, tagsPfx: map[string]*annRoute{}, cells: map[string]bool{}, stopCh: make(chan struct{})}
			w.net = newSimNet()
			net.SimDialHook = w.net.dial
			net.SimListenPacketHook = w.net.listenPacket
			defer func() { net.SimDialHook = nil; net.SimListenPacketHook = nil }()
			runtime.SimEnable(sc.SchedSeed, sc.YieldN, sc.SelShuffle)
			runtime.SimTrace(os.Getenv("VSIM_TRACE") != "")
			if v := os.Getenv("VSIM_STACK_AT"); v != "" {
				n, _ := strconv.ParseUint(v, 10, 64)
				runtime.SimStackAt(n)
			}
			defer runtime.SimDisable()
			w.start = time.Now()
			w.run(impl)
			runtime.SimDisable()
			res.Picks, res.Draws, res.YieldPoints, res.Yields, res.Preempts = runtime.SimStats()
			res.SchedSig = fmt.Sprintf("%016x", runtime.SimSig())
			res.SimSeconds = w.now().Seconds()
		})
	}()
	runtime.SimDisable()
	net.SimDialHook = nil
	net.SimListenPacketHook = nil
	res.WallMs = float64(time.Since(wall).Microseconds()) / 1000
	if w != nil {
		w.mu.Lock()
		res.Violations = w.viols
		res.HarnessErr = w.harnessEr
		res.Probes = w.probes
		res.StateFPs = w.stateFPs
		res.Checks = w.checks
		res.NonEmpty = w.nonEmpty
		res.Ops = w.opsDone
		res.Events = len(w.evlog)
		h := sha256.New()
		for _, l := range w.evlog {
			h.Write([]byte(l))
			h.Write([]byte{'\n'})
		}
		res.EventHash = fmt.Sprintf("%x", h.Sum(nil)[:8])
		for c := range w.cells {
			res.Cells = append(res.Cells, c)
		}
		sort.Strings(res.Cells)
		if dump {
			for _, l := range w.evlog {
				fmt.Println(l)
			}
		}
		w.mu.Unlock()
		w.net.stats.mu.Lock()
		res.Faults = w.net.stats.faults
		w.net.stats.mu.Unlock()
	}
	if panicked != "" {
		leakSeen := false
		for _, v := range res.Violations {
			if v.Clause == "goroutine-leak" {
				leakSeen = true
			}
		}
		if strings.Contains(panicked, "blocked goroutines remain") && leakSeen {
			// already reported with stacks by leakCheck
		} else if strings.Contains(panicked, "deadlock: all goroutines in bubble are blocked") || strings.Contains(panicked, "blocked goroutines remain") {
			res.Violations = append(res.Violations, Violation{Prop: "C20", Clause: "deadlock-or-leak", Subject: "bubble", Detail: firstLines(panicked, 60)})
		} else {
			res.HarnessErr = "panic: " + firstLines(panicked, 30)
		}
	}
	res.OK = len(res.Violations) == 0 && res.HarnessErr == ""
	fd := ""
	if w != nil {
		fd = w.finalDump
	}
	return res, fd
}

var hexAddr = regexp.MustCompile(`0x[0-9a-f]+`)

func firstLines(s string, n int) string {
	l := strings.Split(s, "\n")
	if len(l) > n {
		l = l[:n]
	}
	return strings.Join(l, "\n")
}

func (w *simWorld) run(impl *familyImpl) {
	if err := w.startServer(); err != nil {
		w.harnessError("startServer: %v", err)
		return
	}
	for i := range w.sc.Peers {
		w.peers = append(w.peers, newSimPeer(w, &w.sc.Peers[i]))
	}
	if err := w.installPolicies(); err != nil {
		w.harnessError("policies: %v", err)
	}
	for _, p := range w.peers {
		if p.cfg.Late {
			continue
		}
		if err := w.addPeer(p.cfg); err != nil {
			w.harnessError("addPeer %s: %v", p.cfg.Addr, err)
		}
	}
	if impl.setup != nil {
		if err := impl.setup(w); err != nil {
			w.harnessError("setup: %v", err)
		}
	}
	synctest.Wait()
	for pi := range w.sc.Phases {
		ph := &w.sc.Phases[pi]
		w.runPhase(impl, pi, ph)
		w.mu.Lock()
		bad := w.harnessEr != "" || len(w.viols) > 0
		w.mu.Unlock()
		if bad {
			break
		}
	}
	w.shutdown(impl)
}

func (w *simWorld) runPhase(impl *familyImpl, pi int, ph *Phase) {
	// group ops by actor, preserving order
	byActor := map[int][]*Op{}
	var order []int
	for i := range ph.Ops {
		op := &ph.Ops[i]
		if _, ok := byActor[op.Actor]; !ok {
			order = append(order, op.Actor)
		}
		byActor[op.Actor] = append(byActor[op.Actor], op)
	}
	var wg sync.WaitGroup
	for _, a := range order {
		wg.Add(1)
		go func(a int, ops []*Op) {
			defer wg.Done()
			for _, op := range ops {
				if op.Delay > 0 {
					time.Sleep(time.Duration(op.Delay) * time.Millisecond)
				}
				w.logf("op a%d %s", a, op.String())
				impl.op(w, a, op)
				w.mu.Lock()
				w.opsDone++
				w.mu.Unlock()
			}
		}(a, byActor[a])
	}
	wg.Wait()
	if ph.Settle > 0 {
		time.Sleep(time.Duration(ph.Settle) * time.Second)
	}
	synctest.Wait()
	if ph.Check && impl.check != nil {
		w.logf("check phase %d", pi)
		impl.check(w, pi)
	}
}

func (w *simWorld) shutdown(impl *familyImpl) {
	w.logf("shutdown %s", w.sc.Final)
	for _, f := range w.preShutdown {
		f()
	}
	before := len(w.net.openServerConns())
	_ = before
	switch w.sc.Final {
	case "stopbgp":
		if err := w.s.StopBgp(context.Background(), &api.StopBgpRequest{}); err != nil {
			w.logf("StopBgp: %v", err)
		}
		time.Sleep(2 * time.Second)
		synctest.Wait()
		w.checkAfterStop("stopbgp")
		w.s.Stop()
	case "deleteall":
		for _, p := range w.peers {
			err := w.s.DeletePeer(context.Background(), &api.DeletePeerRequest{Address: p.cfg.Addr})
			_ = err
		}
		time.Sleep(2 * time.Second)
		synctest.Wait()
		w.checkAfterStop("deleteall")
		w.s.Stop()
	default:
		w.s.Stop()
		time.Sleep(2 * time.Second)
		synctest.Wait()
		w.checkAfterStop("stop")
	}
	w.mu.Lock()
	w.stopped = true
	w.mu.Unlock()
	close(w.stopCh)
	for _, p := range w.peers {
		p.mu.Lock()
		c := p.conn
		p.mu.Unlock()
		if c != nil {
			c.Close()
		}
	}
	time.Sleep(time.Second)
	synctest.Wait()
	if impl.final != nil {
		impl.final(w)
	}
	w.leakCheck()
}

// leakCheck: after Stop and after every harness goroutine was released, no goroutine of the
// bubble may remain (C20: stopping the server terminates all of its goroutines).
func (w *simWorld) leakCheck() {
	buf := make([]byte, 4<<20)
	n := runtime.Stack(buf, true)
	blocks := strings.Split(string(buf[:n]), "\n\n")
	var leaked []string
	subj := map[string]bool{}
	for i, b := range blocks {
		if i == 0 || !strings.Contains(b, "synctest bubble") || strings.Contains(b, "internal/synctest.Run(") || strings.Contains(b, "testingSynctestTest") {
			continue
		}
		lines := strings.Split(b, "\n")
		top := ""
		for _, l := range lines[1:] {
			if strings.HasPrefix(l, "github.com/osrg/gobgp") || strings.HasPrefix(l, "github.com/eapache") {
				top = l
				if j := strings.LastIndex(top, "("); j > 0 {
					top = top[:j]
				}
				if j := strings.LastIndex(top, "/"); j > 0 {
					top = top[j+1:]
				}
				break
			}
		}
		if top == "" {
			top = strings.TrimSpace(lines[len(lines)-2])
		}
		subj[top] = true
		if len(leaked) < 12 {
			leaked = append(leaked, hexAddr.ReplaceAllString(b, "0x?"))
		}
	}
	if len(leaked) > 0 {
		var ks []string
		for k := range subj {
			ks = append(ks, k)
		}
		sort.Strings(ks)
		w.violate("C20", "goroutine-leak", strings.Join(ks, ","), fmt.Sprintf("%d goroutine(s) still alive after shutdown (%s):\n%s", len(blocks)-1, w.sc.Final, strings.Join(leaked, "\n\n")))
	}
}

// checkAfterStop: every connection handed to gobgp must have been closed by it (C20).
func (w *simWorld) checkAfterStop(how string) {
	open := w.net.openServerConns()
	if len(open) > 0 {
		var l []string
		for _, c := range open {
			l = append(l, c.ra.String())
		}
		w.violate("C20", "conn-leak-after-"+how, strings.Join(l, ","), fmt.Sprintf("%d connection(s) handed to the daemon are still open after %s", len(open), how))
	}
	if us := w.net.openUDP(); len(us) > 0 {
		var l []string
		for _, u := range us {
			if u.listen {
				l = append(l, "listen "+u.la.String())
			} else {
				l = append(l, "to "+u.ra.IP.String())
			}
		}
		sort.Strings(l)
		w.violate("C20", "udp-socket-leak-after-"+how, strings.Join(l, ","), fmt.Sprintf("%d datagram socket(s) opened by the daemon are still open after %s", len(us), how))
	}
}

// ---------------------------------------------------------------- reading gobgp's state

type ribPath struct {
	Prefix   string
	Fam      wFamily
	Src      string // neighbour address, "" for local
	SrcID    string
	SrcAS    uint32
	RemoteID uint32
	LocalID  uint32
	Tag      uint32
	Best     bool
	Stale    bool
	Filtered bool
	Attrs    *rAttrs
	Age      int64
	Valid    string
}

func gobgpFamily(f wFamily) bgp.Family { return bgp.NewFamily(f.AFI, f.SAFI) }

// attrsFromGobgp converts gobgp's attribute objects through their wire form and the independent
// decoder (used only to READ the daemon's tables; announcements are compared by tag).
func attrsFromGobgp(attrs []bgp.PathAttributeInterface, fam wFamily) (*rAttrs, error) {
	var wa []wAttr
	nh := ""
	for _, a := range attrs {
		b, err := a.Serialize()
		if err != nil {
			return nil, err
		}
		fl, ty := b[0], b[1]
		hl := 3
		l := int(b[2])
		if fl&0x10 != 0 {
			hl = 4
			l = int(binary.BigEndian.Uint16(b[2:4]))
		}
		if hl+l != len(b) {
			return nil, fmt.Errorf("attribute %d: serialized length %d, header says %d", ty, len(b), hl+l)
		}
		if ty == 14 {
			v := b[hl:]
			if len(v) >= 4 && 4+int(v[3]) <= len(v) {
				nh = nhString(v[4:4+int(v[3])], fam)
			}
			continue
		}
		wa = append(wa, wAttr{Flags: fl, Type: ty, Val: b[hl:]})
	}
	r, err := wDecodeAttrs(wa, false)
	if err != nil {
		return nil, err
	}
	if nh != "" {
		r.NextHop = nh
	}
	return r, nil
}

func nlriKey(n bgp.NLRI, fam wFamily) string {
	s := n.String()
	return s
}

func (w *simWorld) listPaths(tt api.TableType, name string, fam wFamily, filtered bool) (map[string][]*ribPath, error) {
	out := map[string][]*ribPath{}
	var cerr error
	err := w.s.ListPath(apiutil.ListPathRequest{TableType: tt, Name: name, Family: gobgpFamily(fam), EnableFiltered: filtered}, func(prefix bgp.NLRI, paths []*apiutil.Path) {
		key := nlriKey(prefix, fam)
		for _, p := range paths {
			ra, err := attrsFromGobgp(p.Attrs, fam)
			if err != nil {
				cerr = err
				continue
			}
			rp := &ribPath{Prefix: key, Fam: fam, SrcAS: p.PeerASN, RemoteID: p.RemoteID, LocalID: p.LocalID, Best: p.Best, Stale: p.Stale, Filtered: p.Filtered, Attrs: ra, Age: p.Age, Tag: tagOf(ra.Comms)}
			if p.PeerAddress.IsValid() {
				rp.Src = p.PeerAddress.String()
			}
			if p.PeerID.IsValid() {
				rp.SrcID = p.PeerID.String()
			}
			if p.Validation != nil {
				rp.Valid = p.Validation.State.String()
			}
			out[key] = append(out[key], rp)
		}
	})
	if err != nil {
		return nil, err
	}
	return out, cerr
}

type vsPeerState struct {
	Addr     string
	State    api.PeerState_SessionState
	Admin    api.PeerState_AdminState
	Received uint64
	Accepted uint64
	Adv      uint64
	Peer     *api.Peer
}

func (w *simWorld) listPeers() map[string]*vsPeerState {
	out := map[string]*vsPeerState{}
	err := w.s.ListPeer(context.Background(), &api.ListPeerRequest{EnableAdvertised: true}, func(p *api.Peer) {
		ps := &vsPeerState{Addr: p.Conf.NeighborAddress, State: p.State.SessionState, Admin: p.State.AdminState, Peer: p}
		for _, a := range p.AfiSafis {
			if a.State != nil {
				ps.Received += a.State.Received
				ps.Accepted += a.State.Accepted
				ps.Adv += a.State.Advertised
			}
		}
		out[ps.Addr] = ps
	})
	if err != nil {
		w.harnessError("ListPeer: %v", err)
	}
	return out
}

func sortedKeys[V any](m map[string]V) []string {
	ks := make([]string, 0, len(m))
	for k := range m {
		ks = append(ks, k)
	}
	sort.Strings(ks)
	return ks
}

func (w *simWorld) addStateFP(parts ...string) {
	h := sha256.New()
	for _, p := range parts {
		h.Write([]byte(p))
		h.Write([]byte{0})
	}
	fp := fmt.Sprintf("%x", h.Sum(nil)[:8])
	w.mu.Lock()
	w.stateFPs = append(w.stateFPs, fp)
	w.mu.Unlock()
}

// annByTag finds the announcement a stored or advertised route stems from.
func (w *simWorld) annByTag(tag uint32, prefix string) *annRoute {
	w.mu.Lock()
	defer w.mu.Unlock()
	if r := w.tagsPfx[fmt.Sprintf("%x/%s", tag, prefix)]; r != nil {
		return r
	}
	return w.tags[tag]
}
