package server

// Family "rpki" (C16, RTR part of C19): simulated RPKI caches speak RTR (RFC 6810 framing, written
// here independently of gobgp's rtr package) over the simulated network; the ROA table gobgp holds
// and the validation state of BGP routes are compared with a model: the records each configured
// cache has announced and not withdrawn, and RFC 6811 evaluated over their union.

import (
	"context"
	"encoding/binary"
	"fmt"
	"io"
	"net"
	"net/netip"
	"sort"
	"strings"
	"sync"
	"testing/synctest"
	"time"

	"github.com/osrg/gobgp/v4/api"
	"github.com/osrg/gobgp/v4/pkg/apiutil"
)

func init() {
	families["rpki"] = &familyImpl{setup: rpkiSetup, op: rpkiOp, check: rpkiCheck}
	extraGenerators["rpki"] = genRPKI
}

type roaRec struct {
	Prefix string // "10.1.0.0/16" or v6
	MaxLen int
	AS     uint32
}

func (r roaRec) String() string { return fmt.Sprintf("%s-%d AS%d", r.Prefix, r.MaxLen, r.AS) }

// simCache is one RTR cache server.
type simCache struct {
	w       *simWorld
	idx     int
	addr    string // ip:port
	mu      sync.Mutex
	session uint16
	serial  uint32
	recs    map[roaRec]bool
	snaps   map[uint32]map[roaRec]bool // serial -> snapshot (for incremental answers)
	conn    *simConn
	// what gobgp has been told and confirmed with End-of-Data (the model of its table for this cache)
	synced   map[roaRec]bool
	haveSync bool
	lastEOD  time.Duration
	queries  int
	corrupt  int  // corrupt the next n PDUs
	fuzzy    bool // a damaged PDU was sent: what the router holds for this cache is not pinned down
	// PDUs sent per type since the cache was configured, valid while no connection of this cache
	// was cut or disturbed (lossy): the client's receive counters must equal them at quiescence
	sentByType map[uint8]int
	lossy      bool
	// a slow cache: queries are read but answered only when the stall ends
	stall bool
	// lifetime model: resynced = a response completed since the last loss of the connection;
	// lostAt = the instant of the FIRST loss since that response; apiTouched = the operator
	// reset / disabled the cache since (the content is then not pinned down until the next response)
	resynced   bool
	lostAt     time.Duration
	lostLast   time.Duration // the latest loss (the lifetime may be counted from either)
	apiTouched bool
}

type rpkiState struct {
	caches     []*simCache
	configured map[int]bool
	lifetime   int64
	downAt     map[int]time.Duration // cache idx -> instant gobgp lost the connection (0 = up)
	serial     int
	routes     map[string]*annRoute
	polActive  bool // the global import policy rejects routes whose validation state is Invalid
	checkPol   bool // this comparison follows a soft reset in: the policy verdicts are current
}

func (w *simWorld) rpki() *rpkiState { return w.fam.(*rpkiState) }

func cacheAddr(i int) string { return fmt.Sprintf("10.9.0.%d:323", i+1) }

func rpkiSetup(w *simWorld) error {
	st := &rpkiState{configured: map[int]bool{}, downAt: map[int]time.Duration{}, routes: map[string]*annRoute{}, lifetime: 60}
	w.fam = st
	for _, p := range w.sc.Policies {
		if p.Name == "rejinv" {
			if err := w.assignPolicy("import", "rejinv"); err != nil {
				return err
			}
			st.polActive = true
		}
	}
	for i := 0; i < 2; i++ {
		c := &simCache{w: w, idx: i, addr: cacheAddr(i), session: uint16(100 + i), serial: 1, recs: map[roaRec]bool{}, snaps: map[uint32]map[roaRec]bool{}, synced: map[roaRec]bool{}}
		c.snaps[1] = map[roaRec]bool{}
		st.caches = append(st.caches, c)
		cc := c
		w.preShutdown = append(w.preShutdown, func() {
			cc.mu.Lock()
			cc.stall = false
			cc.mu.Unlock()
		})
		w.net.listen(c.addr, &simListener{mode: "accept", handle: func(conn *simConn) { cc.serve(conn) }})
	}
	return nil
}

// ---------------------------------------------------------------- RTR wire (RFC 6810)

func rtrPDU(typ uint8, sess uint16, body []byte) []byte {
	b := []byte{0, typ, byte(sess >> 8), byte(sess), 0, 0, 0, 0}
	binary.BigEndian.PutUint32(b[4:], uint32(8+len(body)))
	return append(b, body...)
}

func rtrPrefixPDU(r roaRec, announce bool) []byte {
	p := netip.MustParsePrefix(r.Prefix)
	fl := byte(0)
	if announce {
		fl = 1
	}
	if p.Addr().Is4() {
		a := p.Addr().As4()
		body := append([]byte{fl, byte(p.Bits()), byte(r.MaxLen), 0}, a[:]...)
		return rtrPDU(4, 0, append(body, u32b(r.AS)...))
	}
	a := p.Addr().As16()
	body := append([]byte{fl, byte(p.Bits()), byte(r.MaxLen), 0}, a[:]...)
	return rtrPDU(6, 0, append(body, u32b(r.AS)...))
}

func (c *simCache) send(conn *simConn, b []byte) error {
	c.mu.Lock()
	if c.corrupt > 0 {
		c.corrupt--
		b = append([]byte(nil), b...)
		// damage the PDU: type, length or a body byte, depending on its size
		switch len(b) % 3 {
		case 0:
			b[1] = 0x55
		case 1:
			b[len(b)-1] ^= 0xff
		default:
			binary.BigEndian.PutUint32(b[4:], uint32(len(b)+3))
		}
		c.w.net.stats.fire("corrupt")
		c.fuzzy = true
		c.lossy = true
	} else if len(b) >= 2 {
		if c.sentByType == nil {
			c.sentByType = map[uint8]int{}
		}
		c.sentByType[b[1]]++
	}
	c.mu.Unlock()
	_, err := conn.Write(b)
	if err != nil {
		c.mu.Lock()
		c.lossy = true
		c.mu.Unlock()
	}
	return err
}

// serve runs one RTR session from the cache's side.
func (c *simCache) serve(conn *simConn) {
	c.mu.Lock()
	prev := c.conn
	c.conn = conn
	c.mu.Unlock()
	if prev != nil {
		// a new connection: the previous one is gone, whether or not its goroutine has noticed yet
		c.noteLost()
	}
	c.w.logf("cache%d: connection from gobgp", c.idx)
	defer conn.Close()
	defer func() {
		c.mu.Lock()
		cur := c.conn == conn
		c.mu.Unlock()
		if cur {
			c.noteLost()
		}
	}()
	for {
		h := make([]byte, 8)
		if _, err := io.ReadFull(conn, h); err != nil {
			c.w.logf("cache%d: session ended: %v", c.idx, err)
			return
		}
		l := int(binary.BigEndian.Uint32(h[4:8]))
		if l < 8 || l > 64 {
			c.w.violate("C19", "rtr-emitted-framing", fmt.Sprintf("cache%d", c.idx), fmt.Sprintf("gobgp sent an RTR PDU with length %d", l))
			return
		}
		body := make([]byte, l-8)
		if _, err := io.ReadFull(conn, body); err != nil {
			return
		}
		for c.isStalled() && !conn.isDead() {
			time.Sleep(200 * time.Millisecond)
		}
		if conn.isDead() {
			return
		}
		c.mu.Lock()
		c.queries++
		sess, serial := c.session, c.serial
		cur := map[roaRec]bool{}
		for r := range c.recs {
			cur[r] = true
		}
		c.mu.Unlock()
		switch h[1] {
		case 2: // Reset Query: the whole set
			c.w.logf("cache%d: reset query", c.idx)
			if c.send(conn, rtrPDU(3, sess, nil)) != nil {
				return
			}
			for _, r := range sortedRecs(cur) {
				if c.send(conn, rtrPrefixPDU(r, true)) != nil {
					return
				}
			}
			if c.send(conn, rtrPDU(7, sess, u32b(serial))) != nil {
				return
			}
			c.noteEOD(cur, true)
		case 1: // Serial Query
			qs := binary.BigEndian.Uint16(h[2:4])
			if len(body) != 4 {
				return
			}
			qn := binary.BigEndian.Uint32(body)
			c.mu.Lock()
			old, known := c.snaps[qn]
			c.mu.Unlock()
			c.w.logf("cache%d: serial query session=%d serial=%d (known=%v)", c.idx, qs, qn, known)
			if qs != sess || !known {
				if c.send(conn, rtrPDU(8, 0, nil)) != nil { // Cache Reset
					return
				}
				continue
			}
			if c.send(conn, rtrPDU(3, sess, nil)) != nil {
				return
			}
			for _, r := range sortedRecs(old) {
				if !cur[r] {
					if c.send(conn, rtrPrefixPDU(r, false)) != nil {
						return
					}
				}
			}
			for _, r := range sortedRecs(cur) {
				if !old[r] {
					if c.send(conn, rtrPrefixPDU(r, true)) != nil {
						return
					}
				}
			}
			if c.send(conn, rtrPDU(7, sess, u32b(serial))) != nil {
				return
			}
			c.noteEOD(cur, false)
		case 10:
			c.w.logf("cache%d: error report from gobgp", c.idx)
		default:
			c.w.logf("cache%d: unexpected PDU type %d", c.idx, h[1])
		}
	}
}

func (c *simCache) isStalled() bool {
	c.mu.Lock()
	defer c.mu.Unlock()
	return c.stall
}

// noteLost: the connection of this cache ended.
func (c *simCache) noteLost() {
	c.mu.Lock()
	if c.resynced {
		c.resynced = false
		c.lostAt = c.w.now()
	}
	c.lostLast = c.w.now()
	c.mu.Unlock()
}

func (c *simCache) setLossy() {
	c.mu.Lock()
	c.lossy = true
	c.mu.Unlock()
}

func sortedRecs(m map[roaRec]bool) []roaRec {
	var l []roaRec
	for r := range m {
		l = append(l, r)
	}
	sort.Slice(l, func(i, j int) bool { return l[i].String() < l[j].String() })
	return l
}

func (c *simCache) noteEOD(cur map[roaRec]bool, full bool) {
	c.mu.Lock()
	c.synced = cur
	c.haveSync = true
	c.lastEOD = c.w.now()
	c.resynced = true
	c.apiTouched = false
	c.mu.Unlock()
	c.w.probe("rtr_end_of_data")
}

// ---------------------------------------------------------------- generator

func genRPKI(seed uint64, tier, mode string) *Script {
	g := newGen(seed)
	sc := &Script{Family: "rpki", Mode: mode, Seed: seed}
	sc.SchedSeed = g.u64() | 1
	sc.YieldN = pick(g, yieldChoices)
	sc.SelShuffle = g.p(70)
	sc.Global = GlobalCfg{AS: 65000, RouterID: "10.0.0.1"}
	sc.Peers = []PeerCfg{{Idx: 0, Addr: peerAddr(0), RouterID: peerRID(0), Families: []string{"ipv4-unicast", "ipv6-unicast"}, Kind: "ebgp", AS: 65001},
		{Idx: 1, Addr: peerAddr(1), RouterID: peerRID(1), Families: []string{"ipv4-unicast", "ipv6-unicast"}, Kind: "ibgp", AS: 65000}}
	if mode == "corrupt" {
		sc.Net.Fragment = pick(g, []int{0, 1, 3, 5})
		sc.Net.FragDelay = pick(g, []int{0, 10})
	}
	roaPool := []roaRec{}
	for _, p := range []string{"10.1.0.0/16", "10.1.0.0/24", "10.1.1.0/24", "10.2.0.0/16", "10.0.0.0/8", "2001:db8::/32", "2001:db8:1::/48"} {
		bits := netip.MustParsePrefix(p).Bits()
		for _, ml := range []int{bits, bits + 4, bits + 8} {
			for _, as := range []uint32{65001, 65010, 65020, 0, 65000} { // 65000: the local AS (origin of an empty path)
				roaPool = append(roaPool, roaRec{p, ml, as})
			}
		}
	}
	var ops []Op
	add := func(o Op) { o.Actor = 0; ops = append(ops, o) }
	add(Op{Kind: "up", Peer: 0})
	add(Op{Kind: "up", Peer: 1})
	add(Op{Kind: "addrpki", N: 0})
	if g.p(60) {
		add(Op{Kind: "addrpki", N: 1})
	}
	routePfx := []string{"10.1.0.0/16", "10.1.0.0/20", "10.1.0.0/24", "10.1.1.0/24", "10.1.1.0/28", "10.2.3.0/24", "10.3.0.0/16", "2001:db8:1::/48", "2001:db8:1:1::/64", "2001:db9::/32"}
	n := g.rng(8, 24)
	if tier == "thorough" {
		n = g.rng(15, 60)
	}
	for i := 0; i < n; i++ {
		r := g.n(100)
		ci := g.n(2)
		switch {
		case r < 30:
			rec := pick(g, roaPool)
			add(Op{Kind: "cacheadd", N: ci, Prefix: rec.Prefix, Count: rec.MaxLen, Tag: rec.AS, Arg: pick(g, []string{"notify", "notify", "quiet"})})
		case r < 42:
			rec := pick(g, roaPool)
			add(Op{Kind: "cachedel", N: ci, Prefix: rec.Prefix, Count: rec.MaxLen, Tag: rec.AS, Arg: pick(g, []string{"notify", "notify", "quiet"})})
		case r < 62:
			o := Op{Kind: "route", Peer: g.n(2), Prefix: pick(g, routePfx), Arg: pick(g, []string{"seq", "seq", "seq", "set", "empty", "confedonly"}), Tag: pick(g, []uint32{65001, 65010, 65020, 65030})}
			add(o)
		case r < 64:
			// a route injected through the API with an empty AS_PATH: its origin is the local AS
			add(Op{Kind: "apiroute", Prefix: pick(g, routePfx[:7])})
		case r < 66:
			add(Op{Kind: "notify", N: ci})
		case r < 70:
			add(Op{Kind: "cacherestart", N: ci})
		case r < 75:
			switch g.n(6) {
			case 0:
				// a slow cache: the connection is lost and comes back, but the response is held
				// back for longer than the lifetime / is cut again before it completes
				add(Op{Kind: "stall", N: ci, Arg: "on"})
				add(Op{Kind: "cachedrop", N: ci})
				if g.p(50) {
					add(Op{Kind: "wait", N: pick(g, []int{1000, 31000})})
					add(Op{Kind: "probe"})
					add(Op{Kind: "stall", N: ci, Arg: "off"})
					add(Op{Kind: "cachedrop", N: ci})
					add(Op{Kind: "probe"})
					add(Op{Kind: "wait", N: pick(g, []int{31000, 61000})})
				} else {
					add(Op{Kind: "wait", N: pick(g, []int{31000, 61000, 100000})})
					add(Op{Kind: "probe"})
					add(Op{Kind: "stall", N: ci, Arg: "off"})
				}
				add(Op{Kind: "probe"})
			case 1:
				add(Op{Kind: "stall", N: ci, Arg: pick(g, []string{"on", "off"})})
			default:
				add(Op{Kind: "cachedrop", N: ci})
			}
		case r < 79:
			add(Op{Kind: "resetrpki", N: ci, Arg: pick(g, []string{"soft", "hard"})})
		case r < 82:
			add(Op{Kind: "disablerpki", N: ci})
		case r < 84:
			add(Op{Kind: "enablerpki", N: ci})
		case r < 87:
			add(Op{Kind: "delrpki", N: ci})
		case r < 90:
			add(Op{Kind: "addrpki", N: ci})
		case r < 93:
			add(Op{Kind: "wait", N: pick(g, []int{1000, 31000, 61000, 100000})})
		case r < 96 && mode == "corrupt":
			add(Op{Kind: "corrupt", N: ci, Count: g.rng(1, 3)})
		case r < 98:
			add(Op{Kind: "dupannounce", N: ci})
		default:
			add(Op{Kind: "listen", N: ci, Arg: pick(g, []string{"refuse", "accept"})})
		}
		if g.p(30) {
			add(Op{Kind: "probe"})
		}
	}
	add(Op{Kind: "stall", N: 0, Arg: "off"})
	add(Op{Kind: "stall", N: 1, Arg: "off"})
	add(Op{Kind: "listen", N: 0, Arg: "accept"})
	add(Op{Kind: "listen", N: 1, Arg: "accept"})
	add(Op{Kind: "wait", N: 35000})
	add(Op{Kind: "probe"})
	if mode != "corrupt" && g.p(40) {
		// an import policy that rejects Invalid routes; verdicts are compared after soft resets
		sc.Policies = []PolicyCfg{{Name: "rejinv", RPKI: "invalid", Action: "reject"}}
		var l []Op
		for _, o := range ops {
			l = append(l, o)
			if o.Kind == "probe" && g.p(60) {
				l = append(l, Op{Kind: "polprobe"})
			}
		}
		ops = append(l, Op{Kind: "polprobe"})
	}
	sc.Phases = []Phase{{Ops: ops, Settle: 2, Check: true}}
	sc.Final = pick(g, []string{"stop", "stopbgp"})
	return sc
}

// ---------------------------------------------------------------- ops

func rpkiSettle() {
	time.Sleep(50 * time.Millisecond)
	synctest.Wait()
}

func (c *simCache) bump() {
	c.serial++
	snap := map[roaRec]bool{}
	for r := range c.recs {
		snap[r] = true
	}
	c.snaps[c.serial] = snap
}

func (c *simCache) notify() {
	c.mu.Lock()
	conn, sess, serial := c.conn, c.session, c.serial
	c.mu.Unlock()
	if conn != nil && !conn.isClosed() {
		c.send(conn, rtrPDU(0, sess, u32b(serial)))
	}
}

func rpkiOp(w *simWorld, actor int, op *Op) {
	st := w.rpki()
	synctest.Wait()
	ctx := context.Background()
	switch op.Kind {
	case "up":
		p := w.peers[op.Peer]
		if r := p.connectPassive(false, 20*time.Second); !r.ok {
			w.harnessError("rpki: peer %d: %s", op.Peer, r.reason)
		}
		rpkiSettle()
	case "addrpki":
		c := st.caches[op.N]
		host, _, _ := net.SplitHostPort(c.addr)
		if !st.configured[op.N] {
			// reset the model of this cache BEFORE the call: the session (and an injected
			// corruption) can run before AddRpki returns to this goroutine
			c.mu.Lock()
			c.haveSync = false
			c.synced = map[roaRec]bool{}
			c.fuzzy = false
			c.sentByType = map[uint8]int{}
			c.lossy = false
			c.resynced = false
			c.apiTouched = false
			c.mu.Unlock()
		}
		err := w.s.AddRpki(ctx, &api.AddRpkiRequest{Address: host, Port: 323, Lifetime: st.lifetime})
		w.logf("AddRpki cache%d: %v", op.N, err)
		if err == nil {
			if st.configured[op.N] {
				w.violate("C16", "api", "AddRpki", "adding an already configured cache succeeded")
			}
			st.configured[op.N] = true
		}
		rpkiSettle()
	case "delrpki":
		c := st.caches[op.N]
		c.setLossy()
		host, _, _ := net.SplitHostPort(c.addr)
		err := w.s.DeleteRpki(ctx, &api.DeleteRpkiRequest{Address: host, Port: 323})
		w.logf("DeleteRpki cache%d: %v", op.N, err)
		if st.configured[op.N] {
			if err != nil {
				w.violate("C16", "cache-removal-fails", "DeleteRpki", fmt.Sprintf("removing the configured cache %s:323 failed: %v", host, err))
			} else {
				st.configured[op.N] = false
				c.mu.Lock()
				c.synced = map[roaRec]bool{}
				c.haveSync = false
				c.fuzzy = false
				c.mu.Unlock()
				w.probe("cache_removed")
			}
		}
		rpkiSettle()
	case "resetrpki", "disablerpki":
		c := st.caches[op.N]
		c.setLossy()
		c.mu.Lock()
		c.apiTouched = true
		c.mu.Unlock()
		host, _, _ := net.SplitHostPort(c.addr)
		var err error
		if op.Kind == "disablerpki" {
			err = w.s.DisableRpki(ctx, &api.DisableRpkiRequest{Address: host})
		} else {
			err = w.s.ResetRpki(ctx, &api.ResetRpkiRequest{Address: host, Soft: op.Arg == "soft"})
		}
		w.logf("%s cache%d %s: %v", op.Kind, op.N, op.Arg, err)
		rpkiSettle()
		w.probe("rpki_" + op.Kind + "_" + op.Arg)
	case "enablerpki":
		c := st.caches[op.N]
		host, _, _ := net.SplitHostPort(c.addr)
		err := w.s.EnableRpki(ctx, &api.EnableRpkiRequest{Address: host})
		w.logf("EnableRpki cache%d: %v", op.N, err)
		rpkiSettle()
	case "cacheadd", "cachedel":
		c := st.caches[op.N]
		rec := roaRec{op.Prefix, op.Count, op.Tag}
		c.mu.Lock()
		changed := false
		if op.Kind == "cacheadd" && !c.recs[rec] {
			c.recs[rec] = true
			changed = true
		} else if op.Kind == "cachedel" && c.recs[rec] {
			delete(c.recs, rec)
			changed = true
		}
		if changed {
			c.bump()
		}
		c.mu.Unlock()
		if changed && op.Arg == "notify" {
			c.notify()
		}
		rpkiSettle()
		w.probe(op.Kind)
	case "notify":
		st.caches[op.N].notify()
		rpkiSettle()
	case "dupannounce":
		// a duplicate announcement of a record the router already has, outside any response
		c := st.caches[op.N]
		c.mu.Lock()
		conn := c.conn
		var rec *roaRec
		for _, r := range sortedRecs(c.synced) {
			rr := r
			rec = &rr
			break
		}
		c.mu.Unlock()
		if conn != nil && rec != nil && !conn.isClosed() {
			c.send(conn, rtrPrefixPDU(*rec, true))
			w.probe("duplicate_announce")
		}
		rpkiSettle()
	case "cacherestart":
		c := st.caches[op.N]
		c.setLossy()
		c.mu.Lock()
		c.session += 7
		c.serial = 1
		c.snaps = map[uint32]map[roaRec]bool{}
		snap := map[roaRec]bool{}
		for r := range c.recs {
			snap[r] = true
		}
		c.snaps[1] = snap
		conn := c.conn
		c.mu.Unlock()
		if conn != nil {
			// (noted before the connection goes: the router may reconnect and complete a
			// response before this goroutine runs again)
			c.noteLost()
			conn.Close()
		}
		rpkiSettle()
		w.probe("cache_restart")
	case "cachedrop":
		c := st.caches[op.N]
		c.setLossy()
		c.mu.Lock()
		conn := c.conn
		c.mu.Unlock()
		if conn != nil && !conn.isClosed() {
			c.noteLost()
			w.net.resetPair(conn)
			w.net.stats.fire("conn_reset")
		}
		rpkiSettle()
	case "stall":
		c := st.caches[op.N]
		c.mu.Lock()
		c.stall = op.Arg == "on"
		c.mu.Unlock()
		if op.Arg != "on" {
			time.Sleep(300 * time.Millisecond)
		}
		rpkiSettle()
		w.probe("cache_stall_" + op.Arg)
	case "corrupt":
		c := st.caches[op.N]
		c.mu.Lock()
		c.corrupt = op.Count
		c.mu.Unlock()
		st.caches[op.N].notify()
		rpkiSettle()
	case "listen":
		w.net.setListenMode(st.caches[op.N].addr, op.Arg, 0)
	case "wait":
		time.Sleep(time.Duration(op.N) * time.Millisecond)
		synctest.Wait()
	case "route":
		p := w.peers[op.Peer]
		if !p.isUp() {
			return
		}
		st.serial++
		fam := famV4
		nh := p.cfg.Addr
		if strings.Contains(op.Prefix, ":") {
			fam = famV6
			nh = "2001:db8::2"
		}
		spec := &AttrSpec{Origin: 0, NextHop: nh, MED: -1, LocalPref: -1}
		first := []uint32{}
		if !isIBGPKind(p.cfg.Kind) {
			first = append(first, p.cfg.AS)
		} else {
			spec.LocalPref = 100
		}
		switch op.Arg {
		case "seq":
			spec.ASPath = []asSeg{{2, append(first, op.Tag)}}
		case "set":
			if len(first) > 0 {
				spec.ASPath = []asSeg{{2, first}, {1, []uint32{op.Tag, 65099}}}
			} else {
				spec.ASPath = []asSeg{{2, []uint32{65010}}, {1, []uint32{op.Tag, 65099}}}
			}
		case "empty":
			if len(first) > 0 {
				spec.ASPath = []asSeg{{2, first}}
			}
		case "confedonly":
			if len(first) > 0 {
				spec.ASPath = []asSeg{{2, first}}
			}
		}
		r := &annRoute{Tag: mkTag(op.Peer, st.serial), Fam: fam, Prefix: op.Prefix, Spec: spec, Src: op.Peer}
		w.mu.Lock()
		w.tags[r.Tag] = r
		w.mu.Unlock()
		if p.announce(r) {
			st.routes[fmt.Sprintf("%d|%s", op.Peer, op.Prefix)] = r
		}
		rpkiSettle()
	case "apiroute":
		st.serial++
		tag := mkTag(-1, st.serial)
		spec := &AttrSpec{Origin: 0, NextHop: "0.0.0.0", MED: -1, LocalPref: -1}
		nlri, attrs, err := w.gobgpAttrs(famV4, op.Prefix, spec, tag)
		if err != nil {
			w.harnessError("apiroute: %v", err)
			return
		}
		r := &annRoute{Tag: tag, Fam: famV4, Prefix: op.Prefix, Spec: spec, Src: -1}
		w.mu.Lock()
		w.tags[tag] = r
		w.mu.Unlock()
		_, err = w.s.AddPath(apiutil.AddPathRequest{Paths: []*apiutil.Path{{Family: gobgpFamily(famV4), Nlri: nlri, Attrs: attrs, Age: time.Now().Unix()}}})
		w.logf("AddPath %s: %v", op.Prefix, err)
		w.probe("api_route_empty_path")
		rpkiSettle()
	case "probe":
		rpkiSettle()
		w.rpkiCompare(st)
	case "polprobe":
		// policy conditions on the validation state see the same verdict: re-evaluate the import
		// policy now (soft reset in) and compare accept/reject with RFC 6811 over the same table
		if !st.polActive {
			return
		}
		rpkiSettle()
		err := w.s.ResetPeer(ctx, &api.ResetPeerRequest{Address: "all", Soft: true, Direction: api.ResetPeerRequest_DIRECTION_IN})
		w.logf("soft reset in (all): %v", err)
		rpkiSettle()
		st.checkPol = true
		w.rpkiCompare(st)
		st.checkPol = false
	default:
		w.harnessError("rpki: unknown op %s", op.Kind)
	}
}

// ---------------------------------------------------------------- oracle

// rfc6811 evaluates the validation state of (prefix, origin) over a set of records.
func rfc6811(recs map[roaRec]bool, prefix string, origin uint32, originKnown bool) string {
	if !originKnown {
		// the property statement: a path ending in an AS_SET is reported NotFound
		return "VALIDATION_STATE_NOT_FOUND"
	}
	p := netip.MustParsePrefix(prefix)
	covered, matched := false, false
	for r := range recs {
		rp := netip.MustParsePrefix(r.Prefix)
		if rp.Addr().Is4() != p.Addr().Is4() {
			continue
		}
		if rp.Bits() <= p.Bits() && rp.Contains(p.Addr()) {
			covered = true
			if originKnown && r.AS != 0 && r.AS == origin && p.Bits() <= r.MaxLen {
				matched = true
			}
		}
	}
	switch {
	case matched:
		return "VALIDATION_STATE_VALID"
	case covered:
		return "VALIDATION_STATE_INVALID"
	}
	return "VALIDATION_STATE_NOT_FOUND"
}

// routeOrigin: origin AS per RFC 6811 (last AS of a path ending in AS_SEQUENCE; local AS for an
// empty or confederation-only path; none for a path ending in AS_SET).
func routeOrigin(spec *AttrSpec, localAS uint32) (uint32, bool) {
	var last *asSeg
	for i := range spec.ASPath {
		s := &spec.ASPath[i]
		if s.Type == 3 || s.Type == 4 {
			continue
		}
		last = s
	}
	if last == nil {
		return localAS, true
	}
	if last.Type == 1 {
		return 0, false
	}
	return last.ASNs[len(last.ASNs)-1], true
}

func (w *simWorld) rpkiCompare(st *rpkiState) {
	w.mu.Lock()
	w.checks++
	w.mu.Unlock()
	// the model table: per configured cache, what was confirmed by the last End-of-Data, provided
	// the cache is in sync (a response completed after its last change)
	got := map[string]map[roaRec]bool{}
	err := w.s.ListRpkiTable(context.Background(), &api.ListRpkiTableRequest{}, func(r *api.Roa) {
		host := ""
		if r.Conf != nil {
			host = net.JoinHostPort(r.Conf.Address, fmt.Sprint(r.Conf.RemotePort))
		}
		if got[host] == nil {
			got[host] = map[roaRec]bool{}
		}
		rec := roaRec{fmt.Sprintf("%s/%d", r.Prefix, r.Prefixlen), int(r.Maxlen), r.Asn}
		if got[host][rec] {
			w.violate("C16", "roa-duplicate", host, "record listed twice: "+rec.String())
		}
		got[host][rec] = true
	})
	if err != nil {
		w.harnessError("ListRpkiTable: %v", err)
		return
	}
	// ---- C19 (RTR stream handling): on an undisturbed connection every PDU the cache sent has been
	// split off the stream intact and counted by its type
	_ = w.s.ListRpki(context.Background(), &api.ListRpkiRequest{}, func(r *api.Rpki) {
		if r.Conf == nil || r.State == nil {
			return
		}
		host := net.JoinHostPort(r.Conf.Address, fmt.Sprint(r.Conf.RemotePort))
		for i, c := range st.caches {
			if c.addr != host || !st.configured[i] {
				continue
			}
			c.mu.Lock()
			lossy := c.lossy || c.fuzzy
			sent := map[uint8]int{}
			for k, v := range c.sentByType {
				sent[k] = v
			}
			c.mu.Unlock()
			if lossy {
				continue
			}
			w.probe("rtr_counters_compared")
			for _, x := range []struct {
				name string
				typ  uint8
				got  int64
			}{{"Serial Notify", 0, r.State.SerialNotify}, {"Cache Response", 3, r.State.CacheResponse}, {"IPv4 Prefix", 4, r.State.ReceivedIpv4},
				{"IPv6 Prefix", 6, r.State.ReceivedIpv6}, {"End of Data", 7, r.State.EndOfData}, {"Cache Reset", 8, r.State.CacheReset}} {
				if int64(sent[x.typ]) != x.got {
					w.violate("C19", "rtr-pdu-lost", fmt.Sprintf("cache%d %s", i, x.name), fmt.Sprintf("the cache sent %d %s PDU(s) on an undisturbed connection, the client counts %d", sent[x.typ], x.name, x.got))
				}
			}
		}
	})
	union := map[roaRec]bool{}
	exact := true
	for i, c := range st.caches {
		c.mu.Lock()
		want := map[roaRec]bool{}
		for r := range c.synced {
			want[r] = true
		}
		have := c.haveSync
		insync := true
		for r := range c.recs {
			if !want[r] {
				insync = false
			}
		}
		for r := range want {
			if !c.recs[r] {
				insync = false
			}
		}
		connUp := c.conn != nil && !c.conn.isClosed()
		fuzzy := c.fuzzy
		resynced, lostAt, lostLast, apiTouched, lastEOD := c.resynced, c.lostAt, c.lostLast, c.apiTouched, c.lastEOD
		c.mu.Unlock()
		g := got[c.addr]
		if !st.configured[i] {
			if len(g) > 0 {
				w.violate("C16", "roa-from-removed-cache", c.addr, fmt.Sprintf("%d records of a cache that is not configured (any more) are still in the table, e.g. %s", len(g), sortedRecs(g)[0]))
			}
			continue
		}
		if !fuzzy && have && !apiTouched && !resynced {
			// the connection was lost and no response has completed since: the records stay for
			// the configured lifetime, counted from the loss, and are gone after it
			life := time.Duration(st.lifetime) * time.Second
			since := w.now() - lostAt
			switch {
			case w.now()-lostLast > life+2*time.Second && lastEOD < lostLast:
				// (a response noted at the very instant of the loss may belong to the new connection:
				// the order of the two notes is not pinned down then, nothing is claimed)
				if len(g) > 0 {
					w.violate("C16", "roa-outlives-lifetime", c.addr, fmt.Sprintf("the connection was lost at %.3fs and no response has completed since; %.0fs later (lifetime %ds) %d record(s) of the lost session are still in the table, e.g. %s", lostAt.Seconds(), since.Seconds(), st.lifetime, len(g), sortedRecs(g)[0]))
				}
				w.probe("cache_lifetime_expired")
				continue
			case since < life-2*time.Second && lostAt-lastEOD >= 40*time.Millisecond:
				for _, r := range sortedRecs(want) {
					if !g[r] {
						w.violate("C16", "roa-dropped-within-lifetime", c.addr, fmt.Sprintf("the connection was lost at %.3fs, %.0fs ago (lifetime %ds), and record %s of the lost session is already gone", lostAt.Seconds(), since.Seconds(), st.lifetime, r))
					}
				}
				w.probe("cache_stale_within_lifetime")
			}
		}
		if fuzzy || !have || !connUp || apiTouched || !resynced {
			// after injected corruption, before the first complete response, or while the session is
			// down (lifetime expiry in progress) the exact content is not pinned down here
			exact = false
			for r := range g {
				union[r] = true
			}
			w.probe("cache_unpinned")
			continue
		}
		_ = insync
		for _, r := range sortedRecs(want) {
			if !g[r] {
				w.violate("C16", "roa-missing", c.addr, fmt.Sprintf("record %s was announced (End-of-Data received at %.3fs) and not withdrawn, but is not in the ROA table", r, c.lastEOD.Seconds()))
			}
		}
		for _, r := range sortedRecs(g) {
			if !want[r] {
				w.violate("C16", "roa-stale", c.addr, fmt.Sprintf("record %s is in the ROA table although the cache has withdrawn it / never announced it in the current data set", r))
			}
		}
		for r := range want {
			union[r] = true
		}
		if len(want) > 0 {
			w.mu.Lock()
			w.nonEmpty++
			w.mu.Unlock()
		}
	}
	for h := range got {
		known := false
		for _, c := range st.caches {
			if c.addr == h {
				known = true
			}
		}
		if !known {
			w.violate("C16", "roa-unknown-source", h, "records attributed to an unknown cache")
		}
	}
	// validation state of every stored route (over gobgp's own table when the model is not exact)
	tbl := union
	if !exact {
		tbl = map[roaRec]bool{}
		for _, m := range got {
			for r := range m {
				tbl[r] = true
			}
		}
	}
	anyCache := false
	for i := range st.caches {
		if st.configured[i] {
			anyCache = true
		}
	}
	for _, fam := range []wFamily{famV4, famV6} {
		if !anyCache {
			break // without a configured cache origin validation is not performed at all
		}
		glob, err := w.listPaths(api.TableType_TABLE_TYPE_GLOBAL, "", fam, false)
		if err != nil {
			continue
		}
		for _, pfx := range sortedKeys(glob) {
			for _, rp := range glob[pfx] {
				w.mu.Lock()
				r := w.tags[rp.Tag]
				w.mu.Unlock()
				if r == nil {
					continue
				}
				origin, ok := routeOrigin(r.Spec, w.sc.Global.AS)
				want := rfc6811(tbl, pfx, origin, ok)
				if rp.Valid != want {
					w.violate("C16", "validation-state", fmt.Sprintf("%s origin=%d(known=%v)", pfx, origin, ok), fmt.Sprintf("ListPath reports %s, RFC 6811 over the ROA table gives %s (table: %v)", rp.Valid, want, sortedRecs(tbl)))
				}
				w.probe("validated_" + strings.ToLower(strings.TrimPrefix(want, "VALIDATION_STATE_")))
			}
		}
	}
	if st.checkPol && anyCache {
		for _, p := range w.peers {
			if !p.isUp() {
				continue
			}
			for _, fam := range []wFamily{famV4, famV6} {
				adj, err := w.listPaths(api.TableType_TABLE_TYPE_ADJ_IN, p.cfg.Addr, fam, true)
				if err != nil {
					continue
				}
				for _, pfx := range sortedKeys(adj) {
					for _, rp := range adj[pfx] {
						w.mu.Lock()
						r := w.tags[rp.Tag]
						w.mu.Unlock()
						if r == nil {
							continue
						}
						origin, ok := routeOrigin(r.Spec, w.sc.Global.AS)
						state := rfc6811(tbl, pfx, origin, ok)
						wantRej := state == "VALIDATION_STATE_INVALID"
						if rp.Filtered != wantRej {
							w.violate("C16", "policy-verdict", fmt.Sprintf("p%d %s origin=%d", p.cfg.Idx, pfx, origin),
								fmt.Sprintf("import policy 'reject when validation is invalid' left the route rejected=%v right after a soft reset; RFC 6811 over the ROA table gives %s (table: %v)", rp.Filtered, state, sortedRecs(tbl)))
						}
						w.probe("policy_verdict_checked")
					}
				}
			}
		}
	}
	w.addStateFP(fmt.Sprint(sortedRecs(union)))
}

func rpkiCheck(w *simWorld, phase int) {
	w.rpkiCompare(w.rpki())
}
