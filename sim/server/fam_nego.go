package server

// C08: negotiated session parameters = intersection of both OPEN messages, observed on the wire,
// on the virtual clock and through ListPeer.  Runs inside the "fsm" family (mode "nego").

import (
	"context"
	"encoding/binary"
	"fmt"
	"net/netip"
	"sort"
	"strings"
	"time"

	"github.com/osrg/gobgp/v4/api"
	"github.com/osrg/gobgp/v4/pkg/apiutil"
	"github.com/osrg/gobgp/v4/pkg/packet/bgp"
)

// checkGobgpOpen: the OPEN gobgp sent reflects its configuration.
func (w *simWorld) checkGobgpOpen(st *vsFsmModel, o *wOpenMsg) {
	cfg := st.cfg
	g := w.sc.Global
	bad := func(what, detail string) {
		w.violate("C08", "open-sent", what, detail)
	}
	if o.Version != 4 {
		bad("version", fmt.Sprintf("OPEN version %d", o.Version))
	}
	wantAS2 := uint16(23456)
	if g.AS <= 65535 {
		wantAS2 = uint16(g.AS)
	}
	if o.AS != wantAS2 {
		bad("my-as", fmt.Sprintf("My Autonomous System field %d, local AS is %d (expected %d)", o.AS, g.AS, wantAS2))
	}
	if c, ok := capOf(o, 65); !ok || len(c.Val) != 4 || binary.BigEndian.Uint32(c.Val) != g.AS {
		bad("as4-capability", fmt.Sprintf("4-octet AS capability %v, local AS %d", c.Val, g.AS))
	}
	hold := cfg.HoldTime
	if hold == 0 {
		hold = 90
	}
	if hold < 0 {
		hold = 0
	}
	if int(o.HoldTime) != hold {
		bad("hold-time", fmt.Sprintf("OPEN hold time %d, configured %d", o.HoldTime, hold))
	}
	if o.ID.String() != g.RouterID {
		bad("identifier", fmt.Sprintf("BGP identifier %s, router-id %s", o.ID, g.RouterID))
	}
	var fams []string
	ap := map[string]int{}
	for _, c := range o.Caps {
		switch c.Code {
		case 1:
			if len(c.Val) == 4 {
				fams = append(fams, wFamily{binary.BigEndian.Uint16(c.Val[0:2]), c.Val[3]}.String())
			}
		case 69:
			v := c.Val
			for len(v) >= 4 {
				ap[wFamily{binary.BigEndian.Uint16(v[0:2]), v[2]}.String()] = int(v[3])
				v = v[4:]
			}
		}
	}
	sort.Strings(fams)
	want := append([]string(nil), cfg.Families...)
	sort.Strings(want)
	if strings.Join(fams, ",") != strings.Join(want, ",") {
		bad("families", fmt.Sprintf("multiprotocol capabilities %v, configured families %v", fams, want))
	}
	for _, f := range cfg.Families {
		mode := 0
		if cfg.AddPathRecv {
			mode |= 1
		}
		if cfg.SendMax > 0 {
			mode |= 2
		}
		if ap[f] != mode {
			bad("add-path", fmt.Sprintf("ADD-PATH mode %d announced for %s, configuration implies %d", ap[f], f, mode))
		}
	}
	w.probe("open_checked")
}

// negotiated computes, from both OPENs only, what the session must run with.
type negotiated struct {
	Families map[string]bool
	APSend   map[string]bool // gobgp -> peer carries path ids
	APRecv   map[string]bool // peer -> gobgp carries path ids
	AS2      bool
	ExtMsg   bool
	Hold     int
}

func (w *simWorld) negotiate(st *vsFsmModel) negotiated {
	cfg := st.cfg
	o := st.peerOpen
	n := negotiated{Families: map[string]bool{}, APSend: map[string]bool{}, APRecv: map[string]bool{}}
	peerFams := o.Families
	if o.NoMP {
		peerFams = []string{"ipv4-unicast"}
	}
	for _, f := range cfg.Families {
		if hasString(peerFams, f) {
			n.Families[f] = true
			mode := o.AddPath
			if o.DupCaps && o.AddPath != 0 && f == o.Families[0] {
				mode = 1 // the later duplicate tuple for the first family says "receive"
			}
			if cfg.SendMax > 0 && mode&1 != 0 {
				n.APSend[f] = true
			}
			if cfg.AddPathRecv && mode&2 != 0 {
				n.APRecv[f] = true
			}
		}
	}
	n.AS2 = o.NoAS4
	n.ExtMsg = o.ExtMsg
	n.Hold = st.negHold
	return n
}

func (w *simWorld) fsmNegoOp(st *vsFsmModel, op *Op) {
	cfg := st.cfg
	if st.state != "established" || st.sess == nil {
		return
	}
	n := w.negotiate(st)
	st.negoProbe = true
	defer func() { st.negoProbe = false }()
	switch op.Kind {
	case "negocheck":
		// ListPeer
		ps := w.listPeers()[cfg.Addr]
		if ps == nil || ps.Peer.Timers == nil || ps.Peer.Timers.State == nil {
			w.violate("C08", "reported", "ListPeer", "no timers state reported")
			return
		}
		ts := ps.Peer.Timers.State
		if int(ts.NegotiatedHoldTime) != n.Hold {
			w.violate("C08", "hold-time", fmt.Sprintf("local=%d remote=%d", cfg.HoldTime, st.peerOpen.Hold), fmt.Sprintf("ListPeer negotiated hold time %d, min(local, remote) is %d", ts.NegotiatedHoldTime, n.Hold))
		}
		if n.Hold > 0 {
			wantKA := int(st.kaEvery / time.Second)
			if int(ts.KeepaliveInterval) != wantKA {
				w.violate("C08", "keepalive", fmt.Sprintf("hold=%d", n.Hold), fmt.Sprintf("ListPeer keepalive interval %d, expected %d", ts.KeepaliveInterval, wantKA))
			}
		}
		if !isIBGPKind(cfg.Kind) != (ps.Peer.State.Type == api.PeerType_PEER_TYPE_EXTERNAL) {
			w.violate("C08", "peer-type", cfg.Kind, fmt.Sprintf("ListPeer peer type %s", ps.Peer.State.Type))
		}
		// outbound encoding: make gobgp advertise one local route and decode it under the
		// independently negotiated options
		st.sess.mu.Lock()
		st.sess.dec = wOpts{AddPath: map[wFamily]bool{}, AS2: n.AS2}
		for f, on := range n.APSend {
			if on {
				st.sess.dec.AddPath[famByName(f)] = true
			}
		}
		st.sess.mu.Unlock()
		pfx := "10.77.0.0/24"
		nl, _ := bgp.NewIPAddrPrefix(netip.MustParsePrefix(pfx))
		nh, _ := bgp.NewPathAttributeNextHop(netip.MustParseAddr("10.0.0.1"))
		attrs := []bgp.PathAttributeInterface{bgp.NewPathAttributeOrigin(0), nh,
			bgp.NewPathAttributeAsPath([]bgp.AsPathParamInterface{bgp.NewAs4PathParam(2, []uint32{4200000077, 65077})})}
		_, err := w.s.AddPath(apiutil.AddPathRequest{Paths: []*apiutil.Path{{Family: bgp.RF_IPv4_UC, Nlri: nl, Attrs: attrs, Age: time.Now().Unix()}}})
		if err != nil {
			w.harnessError("nego AddPath: %v", err)
			return
		}
		fsmSettle()
		got, closed := st.observe()
		if closed || st.sess.bad != "" {
			w.violate("C08", "update-encoding", "outbound UPDATE", fmt.Sprintf("session lost or UPDATE undecodable under the negotiated options (add-path send=%v, 2-octet AS=%v): %s", n.APSend, n.AS2, st.sess.bad))
			return
		}
		found := false
		for _, m := range got {
			if m.Type != wUpdate || m.Upd == nil {
				continue
			}
			for _, x := range m.Upd.NLRI {
				if x.Key == pfx {
					found = true
					ra, err := wDecodeAttrs(m.Upd.Attrs, n.AS2)
					if err != nil {
						w.violate("C08", "update-encoding", "outbound UPDATE", err.Error())
						return
					}
					// AS_PATH as a 2-octet peer must see it: AS_TRANS for 4-octet members + AS4_PATH
					var exp []uint32
					if !isIBGPKind(cfg.Kind) {
						exp = append(exp, w.sc.Global.AS)
					}
					exp = append(exp, 4200000077, 65077)
					as4need := false
					var on2 []uint32
					for _, a := range exp {
						if a > 65535 {
							as4need = true
							on2 = append(on2, 23456)
						} else {
							on2 = append(on2, a)
						}
					}
					want := exp
					if n.AS2 {
						want = on2
					}
					gotPath := ""
					if len(ra.ASPath) > 0 {
						gotPath = asPathString(ra.ASPath)
					}
					if gotPath != asPathString([]asSeg{{2, want}}) {
						w.violate("C08", "as-path-encoding", fmt.Sprintf("2-octet peer=%v", n.AS2), fmt.Sprintf("AS_PATH on the wire [%s], expected [%s]", gotPath, asPathString([]asSeg{{2, want}})))
					}
					if n.AS2 && as4need && ra.AS4Path != "["+asPathString([]asSeg{{2, exp}})+"]" {
						w.violate("C08", "as4-path", "2-octet peer", fmt.Sprintf("AS4_PATH %q, expected [%s]", ra.AS4Path, asPathString([]asSeg{{2, exp}})))
					}
					if !n.AS2 && ra.AS4Path != "" {
						w.violate("C08", "as4-path", "4-octet peer", "AS4_PATH sent to a 4-octet peer")
					}
					if n.APSend["ipv4-unicast"] && x.PathID == 0 {
						w.violate("C08", "add-path-encoding", "send negotiated", "path identifier 0 on an ADD-PATH session")
					}
				}
			}
		}
		if !found && n.Families["ipv4-unicast"] {
			w.violate("C08", "update-encoding", "outbound UPDATE", fmt.Sprintf("local route %s not received in decodable form (got %s)", pfx, msgsString(got)))
		}
		if !n.Families["ipv4-unicast"] && found {
			w.violate("C08", "families", "ipv4-unicast", "route of a family that was not negotiated was advertised")
		}
		// families: a route of a configured family is advertised iff the peer announced that family
		if hasString(cfg.Families, "ipv6-unicast") {
			w.negoFamilyProbe(st, n)
		}
		w.probe("nego_checked")
		// remove the probe route again so that the next session starts from an empty table
		if err := w.s.DeletePath(apiutil.DeletePathRequest{Paths: []*apiutil.Path{{Family: bgp.RF_IPv4_UC, Nlri: nl, Attrs: attrs}}}); err != nil {
			w.harnessError("nego DeletePath: %v", err)
		}
		fsmSettle()
		st.observe()
	case "bigupdate":
		// an UPDATE of exactly op.N octets (padding in an optional transitive attribute)
		base := simpleUpdate(cfg, "10.88.0.0/24", n.AS2, apID(n, "ipv4-unicast"))
		pad := op.N - len(base) - 4
		if pad < 0 {
			return
		}
		body := base[19:]
		al := int(binary.BigEndian.Uint16(body[2:4]))
		attr := wEncodeAttr(0xc0|0x10, 222, make([]byte, pad))
		nb := append([]byte{}, body[:4+al]...)
		nb = append(nb, attr...)
		nb = append(nb, body[4+al:]...)
		binary.BigEndian.PutUint16(nb[2:4], uint16(al+len(attr)))
		msg := append(wHeader(wUpdate, len(nb)), nb...)
		if len(msg) != op.N {
			w.harnessError("bigupdate size %d != %d", len(msg), op.N)
			return
		}
		if _, err := st.sess.c.Write(msg); err != nil {
			return
		}
		t := w.now()
		fsmSettle()
		if op.N > 4096 && !n.ExtMsg {
			w.fsmExpect(st, fmt.Sprintf("%d-octet UPDATE without Extended Message", op.N), []expMsg{{Type: wNotification, Code: 1, Sub: 2, At: t}}, true)
			st.toIdle(t, idleHold)
			w.probe("oversize_rejected")
		} else {
			w.fsmExpect(st, fmt.Sprintf("%d-octet UPDATE", op.N), nil, false)
			if st.negHold > 0 {
				st.holdAt = t + time.Duration(st.negHold)*time.Second
			}
			if !w.adjInHas(cfg.Addr, "10.88.0.0/24", -1) {
				w.violate("C08", "extended-message", fmt.Sprintf("%d octets", op.N), "an UPDATE within the negotiated maximum size was not accepted")
			}
			w.probe("big_update_accepted")
		}
	case "apupdate":
		// an UPDATE whose NLRI carries a path identifier
		if !n.Families["ipv4-unicast"] {
			return
		}
		msg := simpleUpdate(cfg, "10.89.0.0/24", n.AS2, 7)
		if _, err := st.sess.c.Write(msg); err != nil {
			return
		}
		t := w.now()
		fsmSettle()
		if n.APRecv["ipv4-unicast"] {
			w.fsmExpect(st, "ADD-PATH encoded UPDATE (receive negotiated)", nil, false)
			if st.negHold > 0 {
				st.holdAt = t + time.Duration(st.negHold)*time.Second
			}
			if !w.adjInHas(cfg.Addr, "10.89.0.0/24", 7) {
				w.violate("C08", "add-path-receive", "negotiated", "path with identifier 7 not found in Adj-RIB-In although ADD-PATH receive was negotiated")
			}
			w.probe("addpath_update_accepted")
		} else {
			// read without path identifiers the bytes are not this announcement: whatever gobgp
			// makes of them, the route must not appear as announced
			if w.adjInHas(cfg.Addr, "10.89.0.0/24", 7) {
				w.violate("C08", "add-path-receive", "not negotiated", "an ADD-PATH encoded UPDATE was parsed with path identifiers although receive was not negotiated")
			}
			got, closed := st.observe()
			if closed {
				st.toIdle(t, idleHold)
			} else if st.negHold > 0 {
				st.holdAt = t + time.Duration(st.negHold)*time.Second
			}
			_ = got
			w.probe("addpath_update_not_negotiated")
		}
	}
}

func apID(n negotiated, fam string) int {
	if n.APRecv[fam] {
		return 1
	}
	return -1
}

func (w *simWorld) adjInHas(addr, prefix string, pathID int) bool {
	adj, err := w.listPaths(api.TableType_TABLE_TYPE_ADJ_IN, addr, famV4, false)
	if err != nil {
		return false
	}
	for _, rp := range adj[prefix] {
		if pathID < 0 || int(rp.RemoteID) == pathID {
			return true
		}
	}
	return false
}

var _ = context.Background

// negoFamilyProbe injects an IPv6 route and checks that it is advertised exactly when ipv6-unicast
// was announced by both sides.
func (w *simWorld) negoFamilyProbe(st *vsFsmModel, n negotiated) {
	pfx := "2001:db8:77::/48"
	nl, _ := bgp.NewIPAddrPrefix(netip.MustParsePrefix(pfx))
	mp, _ := bgp.NewPathAttributeMpReachNLRI(bgp.RF_IPv6_UC, []bgp.PathNLRI{{NLRI: nl}}, netip.MustParseAddr("2001:db8::1"))
	attrs := []bgp.PathAttributeInterface{bgp.NewPathAttributeOrigin(0), mp}
	if _, err := w.s.AddPath(apiutil.AddPathRequest{Paths: []*apiutil.Path{{Family: bgp.RF_IPv6_UC, Nlri: nl, Attrs: attrs, Age: time.Now().Unix()}}}); err != nil {
		w.harnessError("nego AddPath v6: %v", err)
		return
	}
	fsmSettle()
	got, closed := st.observe()
	found := false
	for _, m := range got {
		if m.Type == wUpdate && m.Upd != nil {
			for _, x := range m.Upd.Reach {
				if m.Upd.ReachFam == famV6 && x.Key == pfx {
					found = true
				}
			}
		}
	}
	want := n.Families["ipv6-unicast"]
	if closed || st.sess.bad != "" {
		w.violate("C08", "families", "ipv6-unicast", fmt.Sprintf("session lost / undecodable message after an IPv6 route was injected (negotiated=%v): %s", want, st.sess.bad))
		return
	}
	if found != want {
		w.violate("C08", "families", "ipv6-unicast", fmt.Sprintf("IPv6 route advertised=%v although ipv6-unicast announced by both sides=%v (peer multiprotocol capabilities: %v, peer ADD-PATH lists ipv6 without MP: %v)", found, want, st.peerOpen.Families, st.peerOpen.APExtra))
	}
	_ = w.s.DeletePath(apiutil.DeletePathRequest{Paths: []*apiutil.Path{{Family: bgp.RF_IPv6_UC, Nlri: nl, Attrs: attrs}}})
	fsmSettle()
	st.observe()
	w.probe("family_probe")
}
