package server

// simPeer: a scripted BGP neighbour.  It performs the OPEN/KEEPALIVE exchange, sends what the
// script tells it to, and records every message gobgp writes to the session, decoded with the
// independent decoder, into a per-session view (family, path-id, prefix) -> attributes.

import (
	"encoding/binary"
	"encoding/hex"
	"fmt"
	"io"
	"net"
	"net/netip"
	"sort"
	"strings"
	"sync"
	"time"
)

type viewKey struct {
	Fam    wFamily
	PathID uint32
	Key    string
}

func (k viewKey) String() string {
	return fmt.Sprintf("%s/%s#%d", k.Fam, k.Key, k.PathID)
}

type viewRoute struct {
	Attrs *rAttrs
	Tag   uint32
	Label uint32
	At    time.Duration
	Seq   int
}

// annRoute is an announcement as the harness made it (the model's ground truth for inputs).
type annRoute struct {
	Tag    uint32
	Fam    wFamily
	Prefix string
	PathID uint32
	Spec   *AttrSpec
	At     time.Duration // virtual instant the bytes were handed to the connection
	Src    int           // peer index, -1 local
	Label  uint32
	RD     string
}

// sentRec is one UPDATE this neighbour wrote to a session.
type sentRec struct {
	At   time.Duration
	Sess int
	Raw  []byte
}

type rxRec struct {
	At   time.Duration
	Type uint8
	Len  int
	Info string
}

type simPeer struct {
	w   *simWorld
	cfg *PeerCfg

	mu         sync.Mutex
	conn       *simConn
	sess       int
	up         bool
	upAt       time.Duration
	view       map[viewKey]*viewRoute
	eor        map[wFamily]int
	sent       map[viewKey]*annRoute
	rxOpen     *wOpenMsg
	dec        wOpts
	enc        wOpts // how this peer encodes what it sends (path ids, AS width)
	notifs     []wNotif
	rx         []rxRec
	rxSeq      int
	hold       int
	kaStop     chan struct{}
	downCh     chan struct{}
	downWhy    string
	maxLen     int
	rrSeen     int
	kaTimes    []time.Duration
	passive    bool                      // no keepalives / no reactions (used by fsm scripts)
	grCapFams  []string                  // families listed in the next GR capability (nil: as configured)
	txOpen     []byte                    // the OPEN this peer sent on the current session
	rxOpenRaw  []byte                    // gobgp's OPEN as received on the current session (whole message)
	sentLog    []sentRec                 // every UPDATE handed to the transport, in order (monitoring-record oracle)
	sessEnd    map[int]time.Duration     // session number -> instant this side saw it end
	eorSent    map[wFamily]time.Duration // End-of-RIB markers this peer sent on the current session
	limitMaybe int                       // limit trips whose NOTIFICATION may or may not get through (stalled neighbour)
	ending     bool                      // the session is being ended by the neighbour itself or by the operator
	stalled    bool                      // the neighbour's receive window is full (stall fault)
	limitHit   bool                      // the model says this session exceeded the configured prefix limit
	limitTrips int                       // sessions so far that exceeded it

	// hooks for family-specific monitors
	onMsg func(p *simPeer, m *wMsg)
}

func newSimPeer(w *simWorld, cfg *PeerCfg) *simPeer {
	return &simPeer{w: w, cfg: cfg, view: map[viewKey]*viewRoute{}, eor: map[wFamily]int{}, sent: map[viewKey]*annRoute{}}
}

func famByName(n string) wFamily {
	switch n {
	case "ipv4-unicast":
		return famV4
	case "ipv6-unicast":
		return famV6
	case "l3vpn-ipv4-unicast":
		return famVPN4
	case "l3vpn-ipv6-unicast":
		return famVPN6
	case "rtc":
		return famRTC
	}
	panic("unknown family " + n)
}

func (p *simPeer) families() []wFamily {
	var l []wFamily
	for _, f := range p.cfg.Families {
		l = append(l, famByName(f))
	}
	return l
}

func (p *simPeer) hasFamily(f wFamily) bool {
	for _, x := range p.families() {
		if x == f {
			return true
		}
	}
	return false
}

// buildOpen encodes this peer's OPEN from its configuration.
func (p *simPeer) buildOpen(restartBit bool) []byte {
	var caps []byte
	addCap := func(code uint8, v []byte) {
		caps = append(caps, code, byte(len(v)))
		caps = append(caps, v...)
	}
	for _, f := range p.families() {
		addCap(1, []byte{byte(f.AFI >> 8), byte(f.AFI), 0, f.SAFI})
	}
	if !p.cfg.NoRefresh {
		addCap(2, nil)
	}
	if p.cfg.ExtMsg {
		addCap(6, nil)
	}
	if !p.cfg.NoAS4 {
		addCap(65, u32b(p.cfg.AS))
	}
	if p.cfg.AddPathRecv || p.cfg.SendMax > 0 {
		var v []byte
		for _, f := range p.families() {
			mode := byte(0)
			if p.cfg.SendMax > 0 {
				mode |= 1 // we can receive
			}
			if p.cfg.AddPathRecv {
				mode |= 2 // we send
			}
			v = append(v, byte(f.AFI>>8), byte(f.AFI), f.SAFI, mode)
		}
		addCap(69, v)
	}
	if p.cfg.GR.Enabled {
		flags := uint16(0)
		if restartBit {
			flags |= 0x8000
		}
		if p.cfg.GR.NotifEnabled {
			flags |= 0x4000
		}
		v := u16b(flags | uint16(p.cfg.GR.RestartTime&0x0fff))
		capFams := p.cfg.GR.Families
		if p.grCapFams != nil {
			capFams = p.grCapFams
		}
		for _, fn := range capFams {
			f := famByName(fn)
			v = append(v, byte(f.AFI>>8), byte(f.AFI), f.SAFI, 0x80)
		}
		addCap(64, v)
	}
	if p.cfg.GR.PeerLLGR {
		var v []byte
		fams := p.cfg.GR.LLGRFamilies
		for _, fn := range fams {
			f := famByName(fn)
			t := uint32(p.cfg.GR.llgrTimeOf(f))
			v = append(v, byte(f.AFI>>8), byte(f.AFI), f.SAFI, 0x80, byte(t>>16), byte(t>>8), byte(t))
		}
		addCap(71, v)
	}
	as2 := uint16(23456)
	if p.cfg.AS <= 65535 {
		as2 = uint16(p.cfg.AS)
	}
	hold := p.cfg.PeerHold
	if hold == 0 {
		hold = 90
	}
	if hold < 0 {
		hold = 0
	}
	id := netip.MustParseAddr(p.cfg.RouterID).As4()
	body := []byte{4, byte(as2 >> 8), byte(as2), byte(hold >> 8), byte(hold)}
	body = append(body, id[:]...)
	if len(caps) > 0 {
		body = append(body, byte(len(caps)+2), 2, byte(len(caps)))
		body = append(body, caps...)
	} else {
		body = append(body, 0)
	}
	return append(wHeader(wOpen, len(body)), body...)
}

func keepaliveBytes() []byte { return wHeader(wKeepalive, 0) }

func notificationBytes(code, sub uint8, data []byte) []byte {
	body := append([]byte{code, sub}, data...)
	return append(wHeader(wNotification, len(body)), body...)
}

// readWireMsgLate is readWireMsg with the decoding options looked up only after the whole
// message has arrived (the options of a session may be set while the reader is blocked).
func readWireMsgLate(c *simConn, opts func() wOpts) (*wMsg, error) {
	h := make([]byte, 19)
	if _, err := io.ReadFull(c, h); err != nil {
		return nil, err
	}
	typ, l, err := wParseHeader(h)
	if err != nil {
		return nil, fmt.Errorf("bad header from gobgp: %w", err)
	}
	body := make([]byte, l-19)
	if _, err := io.ReadFull(c, body); err != nil {
		return nil, err
	}
	o := opts()
	m, err := wParseBody(typ, body, &o)
	if err != nil {
		return nil, fmt.Errorf("undecodable message type %d from gobgp (%d bytes): %w", typ, l, err)
	}
	m.Raw = append(h, body...)
	return m, nil
}

func readWireMsg(c *simConn, o *wOpts, maxLen int) (*wMsg, error) {
	h := make([]byte, 19)
	if _, err := io.ReadFull(c, h); err != nil {
		return nil, err
	}
	typ, l, err := wParseHeader(h)
	if err != nil {
		return nil, fmt.Errorf("bad header from gobgp: %w", err)
	}
	body := make([]byte, l-19)
	if _, err := io.ReadFull(c, body); err != nil {
		return nil, err
	}
	m, err := wParseBody(typ, body, o)
	if err != nil {
		return nil, fmt.Errorf("undecodable message type %d from gobgp (%d bytes): %w", typ, l, err)
	}
	m.Raw = append(h, body...)
	return m, nil
}

type connectResult struct {
	ok     bool
	reason string
}

// connectPassive opens a connection towards gobgp (which is in passive mode for this neighbour)
// and runs the handshake.  Retries while gobgp closes the connection (e.g. idle hold).
func (p *simPeer) connectPassive(restartBit bool, maxWait time.Duration) connectResult {
	deadline := time.Now().Add(maxWait)
	for {
		laddr := &net.TCPAddr{IP: p.w.net.serverIP, Port: 179}
		rip := net.ParseIP(p.cfg.Addr)
		if v4 := rip.To4(); v4 != nil {
			rip = v4
		} else {
			laddr = &net.TCPAddr{IP: net.ParseIP("2001:db8::1"), Port: 179}
		}
		a, b := p.w.net.pair(laddr, &net.TCPAddr{IP: rip, Port: p.w.net.port()})
		p.w.applyNetCfg(a, b)
		select {
		case p.w.acceptCh <- net.NewSimTCPConn(a):
		case <-p.w.stopCh:
			return connectResult{false, "stopping"}
		}
		r := p.handshake(b, restartBit)
		if r.ok {
			return r
		}
		b.Close()
		if r.reason == "notification" || time.Now().After(deadline) {
			return r
		}
		select {
		case <-time.After(time.Second):
		case <-p.w.stopCh:
			return connectResult{false, "stopping"}
		}
	}
}

// handshake runs OPEN/KEEPALIVE on an already connected transport (b is our end).
func (p *simPeer) handshake(b *simConn, restartBit bool) connectResult {
	b.SetReadDeadline(time.Now().Add(10 * time.Second))
	defer b.SetReadDeadline(time.Time{})
	m, err := readWireMsg(b, nil, 4096)
	if err != nil {
		return connectResult{false, "no-open: " + err.Error()}
	}
	if m.Type != wOpen {
		return connectResult{false, fmt.Sprintf("expected OPEN got %d", m.Type)}
	}
	p.w.probeOpenSeen(p, m)
	txo := p.buildOpen(restartBit)
	p.mu.Lock()
	p.txOpen, p.rxOpenRaw = txo, append([]byte(nil), m.Raw...)
	p.mu.Unlock()
	if _, err := b.Write(txo); err != nil {
		return connectResult{false, "write-open: " + err.Error()}
	}
	if _, err := b.Write(keepaliveBytes()); err != nil {
		return connectResult{false, "write-ka: " + err.Error()}
	}
	for {
		m2, err := readWireMsg(b, nil, 4096)
		if err != nil {
			return connectResult{false, "no-keepalive: " + err.Error()}
		}
		if m2.Type == wKeepalive {
			break
		}
		if m2.Type == wNotification {
			p.mu.Lock()
			p.notifs = append(p.notifs, *m2.Notif)
			p.mu.Unlock()
			p.w.logf("p%d handshake notification %d/%d", p.cfg.Idx, m2.Notif.Code, m2.Notif.Sub)
			return connectResult{false, "notification"}
		}
		return connectResult{false, fmt.Sprintf("unexpected message %d in handshake", m2.Type)}
	}
	p.sessionUp(b, m.Open)
	return connectResult{true, ""}
}

func capOf(o *wOpenMsg, code uint8) (wCap, bool) {
	for _, c := range o.Caps {
		if c.Code == code {
			return c, true
		}
	}
	return wCap{}, false
}

// sessionUp records negotiated options (computed independently from both OPENs) and starts the
// reader and keepalive goroutines.
func (p *simPeer) sessionUp(b *simConn, open *wOpenMsg) {
	p.mu.Lock()
	p.conn = b
	p.sess++
	p.up = true
	p.upAt = p.w.now()
	p.rxOpen = open
	p.view = map[viewKey]*viewRoute{}
	p.eor = map[wFamily]int{}
	p.sent = map[viewKey]*annRoute{}
	p.eorSent = map[wFamily]time.Duration{}
	p.limitHit = false
	p.ending = false
	p.downCh = make(chan struct{})
	p.kaStop = make(chan struct{})
	p.downWhy = ""
	// decoding options for what gobgp sends: path ids where gobgp announced SEND (or both) for a
	// family and we announced RECEIVE.
	p.dec = wOpts{AddPath: map[wFamily]bool{}, AS2: p.cfg.NoAS4}
	p.enc = wOpts{AddPath: map[wFamily]bool{}, AS2: p.cfg.NoAS4}
	if _, ok := capOf(open, 65); !ok {
		p.dec.AS2, p.enc.AS2 = true, true
	}
	for _, c := range open.Caps {
		if c.Code != 69 {
			continue
		}
		v := c.Val
		for len(v) >= 4 {
			f := wFamily{binary.BigEndian.Uint16(v[0:2]), v[2]}
			mode := v[3]
			if p.hasFamily(f) {
				if mode&2 != 0 && p.cfg.SendMax > 0 {
					p.dec.AddPath[f] = true
				}
				if mode&1 != 0 && p.cfg.AddPathRecv {
					p.enc.AddPath[f] = true
				}
			}
			v = v[4:]
		}
	}
	p.maxLen = 4096
	if _, ok := capOf(open, 6); ok && p.cfg.ExtMsg {
		p.maxLen = 65535
	}
	hold := int(open.HoldTime)
	ph := p.cfg.PeerHold
	if ph == 0 {
		ph = 90
	}
	if ph < 0 {
		ph = 0
	}
	if ph < hold {
		hold = ph
	}
	p.hold = hold
	sess := p.sess
	down := p.downCh
	stop := p.kaStop
	p.mu.Unlock()
	p.w.logf("p%d session %d up hold=%d", p.cfg.Idx, sess, hold)
	go p.readLoop(b, sess, down)
	if hold > 0 && !p.passive {
		go p.keepaliveLoop(b, time.Duration(hold)*time.Second/3, stop, down)
	}
}

func (p *simPeer) keepaliveLoop(b *simConn, every time.Duration, stop, down chan struct{}) {
	t := time.NewTicker(every)
	defer t.Stop()
	for {
		select {
		case <-t.C:
			if _, err := b.Write(keepaliveBytes()); err != nil {
				return
			}
		case <-stop:
			return
		case <-down:
			return
		case <-p.w.stopCh:
			return
		}
	}
}

func (p *simPeer) readLoop(b *simConn, sess int, down chan struct{}) {
	why := ""
	for {
		p.mu.Lock()
		dec := p.dec
		maxLen := p.maxLen
		p.mu.Unlock()
		m, err := readWireMsg(b, &dec, maxLen)
		if err != nil {
			why = err.Error()
			if strings.HasPrefix(why, "undecodable") || strings.HasPrefix(why, "bad header") {
				p.w.violate("C11", "stream-framing", fmt.Sprintf("p%d", p.cfg.Idx), why)
			}
			break
		}
		p.onMessage(m, maxLen)
		if m.Type == wNotification {
			why = fmt.Sprintf("notification %d/%d", m.Notif.Code, m.Notif.Sub)
			break
		}
	}
	p.sessionDown(b, sess, why, down)
}

func (p *simPeer) onMessage(m *wMsg, maxLen int) {
	now := p.w.now()
	limit := maxLen
	if m.Type == wOpen || m.Type == wKeepalive {
		limit = 4096
	}
	if m.Len > limit {
		p.w.violate("C11", "message-size", fmt.Sprintf("p%d", p.cfg.Idx), fmt.Sprintf("message type %d of %d bytes exceeds the session maximum %d", m.Type, m.Len, limit))
	}
	p.mu.Lock()
	p.rxSeq++
	info := ""
	switch m.Type {
	case wKeepalive:
		p.kaTimes = append(p.kaTimes, now)
	case wNotification:
		p.notifs = append(p.notifs, *m.Notif)
		info = fmt.Sprintf("%d/%d", m.Notif.Code, m.Notif.Sub)
	case wRouteRefresh:
		p.rrSeen++
	case wUpdate:
		info = p.applyUpdateLocked(m.Update, now)
	}
	p.rx = append(p.rx, rxRec{At: now, Type: m.Type, Len: m.Len, Info: info})
	h := p.onMsg
	p.mu.Unlock()
	if m.Type != wKeepalive {
		p.w.logf("p%d rx type=%d len=%d %s", p.cfg.Idx, m.Type, m.Len, info)
	}
	if h != nil {
		h(p, m)
	}
}

// applyUpdateLocked applies one UPDATE from gobgp to the session view, in wire order semantics:
// withdrawals first, then announcements (RFC 4271: a prefix should not be in both).
func (p *simPeer) applyUpdateLocked(u *wUpdateMsg, now time.Duration) string {
	var sb strings.Builder
	del := func(f wFamily, n wNLRI) {
		k := viewKey{f, n.PathID, n.Key}
		if _, ok := p.view[k]; !ok {
			p.w.probe("withdraw_of_unadvertised")
		}
		delete(p.view, k)
		fmt.Fprintf(&sb, " -%s", k)
	}
	for _, n := range u.Withdrawn {
		del(famV4, n)
	}
	if u.UnreachOk {
		for _, n := range u.Unreach {
			del(u.UnreachFam, n)
		}
	}
	// End-of-RIB
	if len(u.Withdrawn) == 0 && len(u.NLRI) == 0 && len(u.Attrs) == 0 {
		p.eor[famV4]++
		sb.WriteString(" EOR(ipv4-unicast)")
		return sb.String()
	}
	if u.UnreachOk && len(u.Unreach) == 0 && len(u.Attrs) == 1 && len(u.NLRI) == 0 && len(u.Withdrawn) == 0 {
		p.eor[u.UnreachFam]++
		fmt.Fprintf(&sb, " EOR(%s)", u.UnreachFam)
		return sb.String()
	}
	if len(u.NLRI) == 0 && len(u.Reach) == 0 {
		return sb.String()
	}
	ra, err := wDecodeAttrs(u.Attrs, p.dec.AS2)
	if err != nil {
		p.w.violate("C11", "attribute-framing", fmt.Sprintf("p%d", p.cfg.Idx), err.Error())
		return sb.String()
	}
	if p.dec.AS2 && p.w.sc.Family == "world" {
		p.mergeAS4(ra)
	}
	if len(ra.Dups) > 0 {
		p.w.violate("C09", "duplicate-attribute", fmt.Sprintf("p%d", p.cfg.Idx), fmt.Sprintf("attribute types %v appear twice", ra.Dups))
	}
	tag := tagOf(ra.Comms)
	set := func(f wFamily, n wNLRI, nh string) {
		k := viewKey{f, n.PathID, n.Key}
		a := ra
		if nh != "" {
			a = ra.clone()
			a.NextHop = nh
		}
		// stable path identifier: the same announcement must not sit under two ids of one prefix
		if tag != 0 && p.dec.AddPath[f] {
			for ok, ov := range p.view {
				if ok.Fam == f && ok.Key == n.Key && ok.PathID != n.PathID && ov.Tag == tag {
					p.w.violate("C01", "addpath-unstable-id", fmt.Sprintf("p%d %s", p.cfg.Idx, n.Key),
						fmt.Sprintf("announcement tag %x advertised under path-id %d while still advertised under %d", tag, n.PathID, ok.PathID))
				}
			}
		}
		p.view[k] = &viewRoute{Attrs: a, Tag: tag, Label: n.Label, At: now, Seq: p.rxSeq}
		fmt.Fprintf(&sb, " +%s(t%x)", k, tag)
	}
	for _, n := range u.NLRI {
		set(famV4, n, "")
	}
	for _, n := range u.Reach {
		set(u.ReachFam, n, nhString(u.ReachNH, u.ReachFam))
	}
	return sb.String()
}

// mergeAS4: what a 2-octet-AS speaker's NEW neighbours reconstruct (RFC 6793 4.2.3): the AS numbers
// of AS4_PATH replace the trailing AS numbers of AS_PATH.  AS_TRANS in AS_PATH without an AS4_PATH
// that explains it means the 4-octet AS numbers were lost on the way to this neighbour.
func (p *simPeer) mergeAS4(ra *rAttrs) {
	subj := fmt.Sprintf("p%d", p.cfg.Idx)
	n2, trans := 0, false
	for _, s := range ra.ASPath {
		if s.Type != 1 && s.Type != 2 {
			continue
		}
		n2 += len(s.ASNs)
		for _, a := range s.ASNs {
			if a == 23456 {
				trans = true
			}
		}
	}
	if ra.AS4Segs == nil {
		if trans {
			p.w.violate("C08", "as-trans-without-as4-path", subj, fmt.Sprintf("an UPDATE to a 2-octet-AS neighbour carries AS_TRANS in AS_PATH [%s] and no AS4_PATH", asPathString(ra.ASPath)))
		}
		return
	}
	var flat4 []uint32
	for _, s := range ra.AS4Segs {
		flat4 = append(flat4, s.ASNs...)
	}
	if len(flat4) > n2 {
		p.w.probe("as4_path_longer_than_as_path")
		return
	}
	// positions are counted over the non-confederation AS numbers; set/sequence structure is taken
	// from AS_PATH (gobgp builds AS4_PATH from the same segments)
	skip := n2 - len(flat4)
	i := 0
	for si := range ra.ASPath {
		s := &ra.ASPath[si]
		if s.Type != 1 && s.Type != 2 {
			continue
		}
		for k := range s.ASNs {
			if i >= skip {
				v4 := flat4[i-skip]
				v2 := s.ASNs[k]
				if (v4 > 65535 && v2 != 23456) || (v4 <= 65535 && v2 != v4) {
					p.w.violate("C08", "as4-path-inconsistent", subj, fmt.Sprintf("AS_PATH [%s] and AS4_PATH %s disagree at position %d", asPathString(ra.ASPath), ra.AS4Path, i))
					return
				}
				s.ASNs[k] = v4
			} else if s.ASNs[k] == 23456 {
				p.w.violate("C08", "as-trans-without-as4-path", subj, fmt.Sprintf("AS_TRANS at position %d of AS_PATH [%s] is not covered by AS4_PATH %s", i, asPathString(ra.ASPath), ra.AS4Path))
				return
			}
			i++
		}
	}
	ra.AS4Path, ra.AS4Segs = "", nil
	p.w.probe("as4_path_merged")
}

func (p *simPeer) sessionDown(b *simConn, sess int, why string, down chan struct{}) {
	p.mu.Lock()
	if p.sess != sess || !p.up {
		p.mu.Unlock()
		return
	}
	p.up = false
	p.downWhy = why
	p.view = map[viewKey]*viewRoute{}
	p.eor = map[wFamily]int{}
	gr := p.cfg.GR.Enabled
	if !gr {
		p.sent = map[viewKey]*annRoute{}
	}
	close(down)
	if p.sessEnd == nil {
		p.sessEnd = map[int]time.Duration{}
	}
	p.sessEnd[sess] = p.w.now()
	p.mu.Unlock()
	b.Close()
	p.w.logf("p%d session %d down: %s", p.cfg.Idx, sess, why)
	if h := p.w.onPeerDown; h != nil {
		h(p, why)
	}
}

func (p *simPeer) isUp() bool {
	p.mu.Lock()
	defer p.mu.Unlock()
	return p.up
}

// ---------------------------------------------------------------- sending

const tagHigh = 0x7e00 // communities 0x7eXX:YYYY carry (peer, serial)

func tagComm(tag uint32) uint32 { return tag }
func tagOf(comms []uint32) uint32 {
	for _, c := range comms {
		if c>>24 == 0x7e {
			return c
		}
	}
	return 0
}

func mkTag(src int, serial int) uint32 {
	return uint32(0x7e)<<24 | uint32((src+1)&0xff)<<16 | uint32(serial&0xffff)
}

func (p *simPeer) encodeAttrs(spec *AttrSpec, tag uint32, fam wFamily, nlri []byte, mpNH []byte) []byte {
	var b []byte
	b = append(b, wEncodeAttr(0x40, 1, []byte{byte(spec.Origin)})...)
	b = append(b, wEncodeAttr(0x40, 2, wEncodeASPath(spec.ASPath, p.enc.AS2))...)
	if fam == famV4 && mpNH == nil {
		nh := netip.MustParseAddr(spec.NextHop).As4()
		b = append(b, wEncodeAttr(0x40, 3, nh[:])...)
	}
	if spec.MED >= 0 {
		b = append(b, wEncodeAttr(0x80, 4, u32b(uint32(spec.MED)))...)
	}
	if spec.LocalPref >= 0 {
		b = append(b, wEncodeAttr(0x40, 5, u32b(uint32(spec.LocalPref)))...)
	}
	if spec.AtomicAgg {
		b = append(b, wEncodeAttr(0x40, 6, nil)...)
	}
	var cv []byte
	for _, c := range specComms(spec, tag) {
		cv = append(cv, u32b(c)...)
	}
	if len(cv) > 0 {
		b = append(b, wEncodeAttr(0xc0, 8, cv)...)
	}
	if spec.Originator != "" {
		a := netip.MustParseAddr(spec.Originator).As4()
		b = append(b, wEncodeAttr(0x80, 9, a[:])...)
	}
	if len(spec.ClusterList) > 0 {
		var v []byte
		for _, c := range spec.ClusterList {
			a := netip.MustParseAddr(c).As4()
			v = append(v, a[:]...)
		}
		b = append(b, wEncodeAttr(0x80, 10, v)...)
	}
	if mpNH != nil {
		v := []byte{byte(fam.AFI >> 8), byte(fam.AFI), fam.SAFI, byte(len(mpNH))}
		v = append(v, mpNH...)
		v = append(v, 0)
		v = append(v, nlri...)
		b = append(b, wEncodeAttr(0x80, 14, v)...)
	}
	if len(spec.ExtComms) > 0 {
		var v []byte
		for _, e := range spec.ExtComms {
			v = append(v, encodeRT(e)...)
		}
		b = append(b, wEncodeAttr(0xc0, 16, v)...)
	}
	if p.enc.AS2 {
		// an OLD speaker that learned 4-octet ASNs from elsewhere carries them in AS4_PATH
		need := false
		for _, s := range spec.ASPath {
			for _, a := range s.ASNs {
				if a > 65535 {
					need = true
				}
			}
		}
		if need {
			var segs []asSeg
			for _, s := range spec.ASPath {
				if s.Type == 1 || s.Type == 2 {
					segs = append(segs, s)
				}
			}
			b = append(b, wEncodeAttr(0xc0, 17, wEncodeASPath(segs, false))...)
		}
	}
	for _, u := range spec.Unknown {
		v, _ := hex.DecodeString(u.Hex)
		b = append(b, wEncodeAttr(u.Flags, u.Type, v)...)
	}
	return b
}

// specComms is the community list an announcement carries on the wire: declared ones, padding, tag.
func specComms(spec *AttrSpec, tag uint32) []uint32 {
	var l []uint32
	l = append(l, spec.Comms...)
	for i := 0; i < spec.PadComms; i++ {
		l = append(l, uint32(0x7d00+(i>>16))<<16|uint32(i&0xffff))
	}
	if tag != 0 {
		l = append(l, tag)
	}
	return l
}

func encodeRT(s string) []byte {
	var as, n uint32
	if _, err := fmt.Sscanf(s, "rt:%d:%d", &as, &n); err != nil {
		panic("bad rt " + s)
	}
	if as > 65535 {
		return []byte{0x02, 0x02, byte(as >> 24), byte(as >> 16), byte(as >> 8), byte(as), byte(n >> 8), byte(n)}
	}
	return []byte{0x00, 0x02, byte(as >> 8), byte(as), byte(n >> 24), byte(n >> 16), byte(n >> 8), byte(n)}
}

func (p *simPeer) encodeNLRI(fam wFamily, prefix string, pathID uint32, label uint32, rd string) []byte {
	var b []byte
	if p.enc.AddPath[fam] {
		b = append(b, u32b(pathID)...)
	}
	switch fam {
	case famV4, famV6:
		b = append(b, wEncodePrefix(netip.MustParsePrefix(prefix))...)
	case famVPN4, famVPN6:
		pf := netip.MustParsePrefix(prefix)
		pb := wEncodePrefix(pf)
		b = append(b, byte(int(pb[0])+88), byte(label>>12), byte(label>>4), byte(label<<4)|1)
		b = append(b, encodeRD(rd)...)
		b = append(b, pb[1:]...)
	case famRTC:
		if prefix == "default" {
			b = append(b, 0)
		} else {
			var as uint32
			var rt string
			i := strings.Index(prefix, ":")
			fmt.Sscanf(prefix[:i], "%d", &as)
			rt = prefix[i+1:]
			b = append(b, 96)
			b = append(b, u32b(as)...)
			b = append(b, encodeRT(rt)...)
		}
	}
	return b
}

func encodeRD(s string) []byte {
	var a, n uint32
	fmt.Sscanf(s, "%d:%d", &a, &n)
	return []byte{0, 0, byte(a >> 8), byte(a), byte(n >> 24), byte(n >> 16), byte(n >> 8), byte(n)}
}

func (p *simPeer) mpNextHop(fam wFamily, spec *AttrSpec) []byte {
	switch fam {
	case famV6:
		nh := spec.NextHop
		if nh == "" || !strings.Contains(nh, ":") {
			nh = "2001:db8::" + fmt.Sprintf("%x", p.cfg.Idx+2)
		}
		a := netip.MustParseAddr(nh).As16()
		return a[:]
	case famVPN4:
		a := netip.MustParseAddr(spec.NextHop).As4()
		return append(make([]byte, 8), a[:]...)
	case famVPN6:
		a := netip.MustParseAddr("::ffff:" + spec.NextHop).As16()
		return append(make([]byte, 8), a[:]...)
	case famRTC:
		a := netip.MustParseAddr(spec.NextHop).As4()
		return a[:]
	}
	return nil
}

// buildAnnounce encodes one UPDATE announcing a single route.
func (p *simPeer) buildAnnounce(r *annRoute) []byte {
	nl := p.encodeNLRI(r.Fam, r.Prefix, r.PathID, r.Label, r.RD)
	var attrs, tail []byte
	if r.Fam == famV4 && p.cfg.V4MP {
		nh := netip.MustParseAddr(r.Spec.NextHop).As4()
		attrs = p.encodeAttrs(r.Spec, r.Tag, r.Fam, nl, nh[:])
	} else if r.Fam == famV4 {
		attrs = p.encodeAttrs(r.Spec, r.Tag, r.Fam, nil, nil)
		tail = nl
	} else {
		attrs = p.encodeAttrs(r.Spec, r.Tag, r.Fam, nl, p.mpNextHop(r.Fam, r.Spec))
	}
	body := []byte{0, 0, byte(len(attrs) >> 8), byte(len(attrs))}
	body = append(body, attrs...)
	body = append(body, tail...)
	return append(wHeader(wUpdate, len(body)), body...)
}

func (p *simPeer) buildWithdraw(fam wFamily, prefix string, pathID uint32, label uint32, rd string) []byte {
	nl := p.encodeNLRI(fam, prefix, pathID, label, rd)
	var body []byte
	if fam == famV4 {
		body = append([]byte{byte(len(nl) >> 8), byte(len(nl))}, nl...)
		body = append(body, 0, 0)
	} else {
		v := append([]byte{byte(fam.AFI >> 8), byte(fam.AFI), fam.SAFI}, nl...)
		a := wEncodeAttr(0x80, 15, v)
		body = append([]byte{0, 0, byte(len(a) >> 8), byte(len(a))}, a...)
	}
	return append(wHeader(wUpdate, len(body)), body...)
}

func buildEOR(fam wFamily) []byte {
	if fam == famV4 {
		return append(wHeader(wUpdate, 4), 0, 0, 0, 0)
	}
	a := wEncodeAttr(0x80, 15, []byte{byte(fam.AFI >> 8), byte(fam.AFI), fam.SAFI})
	body := append([]byte{0, 0, byte(len(a) >> 8), byte(len(a))}, a...)
	return append(wHeader(wUpdate, len(body)), body...)
}

func buildRouteRefresh(fam wFamily) []byte {
	return append(wHeader(wRouteRefresh, 4), byte(fam.AFI>>8), byte(fam.AFI), 0, fam.SAFI)
}

// write sends raw bytes on the current session; false if there is none.
func (p *simPeer) write(b []byte) bool {
	p.mu.Lock()
	c := p.conn
	up := p.up
	p.mu.Unlock()
	if !up || c == nil {
		return false
	}
	_, err := c.Write(b)
	if err == nil {
		p.noteSent(b)
	}
	return err == nil
}

// noteSent records an UPDATE that the transport accepted.
func (p *simPeer) noteSent(b []byte) {
	if len(b) < 19 || b[18] != wUpdate {
		return
	}
	p.mu.Lock()
	p.sentLog = append(p.sentLog, sentRec{At: p.w.now(), Sess: p.sess, Raw: append([]byte(nil), b...)})
	p.mu.Unlock()
}

// announce sends the route and, if the bytes were accepted by the transport, records it in the
// model of what this session has announced.
func (p *simPeer) announce(r *annRoute) bool {
	p.mu.Lock()
	if !p.up {
		p.mu.Unlock()
		return false
	}
	c := p.conn
	sess := p.sess
	msg := p.buildAnnounce(r)
	p.mu.Unlock()
	// arrival instant at gobgp: hand-over to the transport plus the configured one-way latency
	r.At = p.w.now() + time.Duration(p.w.sc.Net.LatencyMs)*time.Millisecond
	if _, err := c.Write(msg); err != nil {
		return false
	}
	p.noteSent(msg)
	p.mu.Lock()
	if p.sess == sess && p.up {
		pid := r.PathID
		if !p.enc.AddPath[r.Fam] {
			pid = 0
		}
		p.sent[viewKey{r.Fam, pid, r.Prefix}] = r
	}
	p.mu.Unlock()
	return true
}

// announceAndWithdraw sends ONE UPDATE that withdraws wdPrefix (IPv4 unicast, classic encoding) and
// announces r.  Both changes are recorded if the transport accepted the message.
func (p *simPeer) announceAndWithdraw(r *annRoute, wdPrefix string, wdPathID uint32) bool {
	p.mu.Lock()
	if !p.up {
		p.mu.Unlock()
		return false
	}
	c := p.conn
	sess := p.sess
	wd := p.encodeNLRI(famV4, wdPrefix, wdPathID, 0, "")
	nl := p.encodeNLRI(famV4, r.Prefix, r.PathID, 0, "")
	attrs := p.encodeAttrs(r.Spec, r.Tag, famV4, nil, nil)
	body := append([]byte{byte(len(wd) >> 8), byte(len(wd))}, wd...)
	body = append(body, byte(len(attrs)>>8), byte(len(attrs)))
	body = append(body, attrs...)
	body = append(body, nl...)
	msg := append(wHeader(wUpdate, len(body)), body...)
	p.mu.Unlock()
	r.At = p.w.now() + time.Duration(p.w.sc.Net.LatencyMs)*time.Millisecond
	if _, err := c.Write(msg); err != nil {
		return false
	}
	p.noteSent(msg)
	p.mu.Lock()
	if p.sess == sess && p.up {
		pid, wpid := r.PathID, wdPathID
		if !p.enc.AddPath[famV4] {
			pid, wpid = 0, 0
		}
		delete(p.sent, viewKey{famV4, wpid, wdPrefix})
		p.sent[viewKey{famV4, pid, r.Prefix}] = r
	}
	p.mu.Unlock()
	return true
}

func (p *simPeer) withdraw(fam wFamily, prefix string, pathID uint32) bool {
	p.mu.Lock()
	if !p.up {
		p.mu.Unlock()
		return false
	}
	c := p.conn
	sess := p.sess
	pid := pathID
	if !p.enc.AddPath[fam] {
		pid = 0
	}
	k := viewKey{fam, pid, prefix}
	var label uint32
	rd := ""
	if old := p.sent[k]; old != nil {
		label, rd = old.Label, old.RD
	}
	msg := p.buildWithdraw(fam, prefix, pathID, label, rd)
	p.mu.Unlock()
	if _, err := c.Write(msg); err != nil {
		return false
	}
	p.noteSent(msg)
	p.mu.Lock()
	if p.sess == sess && p.up {
		delete(p.sent, k)
	}
	p.mu.Unlock()
	return true
}

// snapshotView returns a copy of the session view, sorted keys.
func (p *simPeer) snapshotView() (map[viewKey]*viewRoute, []viewKey) {
	p.mu.Lock()
	defer p.mu.Unlock()
	m := make(map[viewKey]*viewRoute, len(p.view))
	ks := make([]viewKey, 0, len(p.view))
	for k, v := range p.view {
		m[k] = v
		ks = append(ks, k)
	}
	sort.Slice(ks, func(i, j int) bool { return ks[i].String() < ks[j].String() })
	return m, ks
}

func (p *simPeer) snapshotSent() map[viewKey]*annRoute {
	p.mu.Lock()
	defer p.mu.Unlock()
	m := make(map[viewKey]*annRoute, len(p.sent))
	for k, v := range p.sent {
		m[k] = v
	}
	return m
}

// dropSession aborts the current session from the peer's side. kind: reset | close | notify
func (p *simPeer) dropSession(kind string) bool {
	p.mu.Lock()
	c := p.conn
	up := p.up
	p.mu.Unlock()
	if !up || c == nil {
		return false
	}
	// a neighbour that ends the session itself is not owed the Maximum-Prefixes NOTIFICATION
	// that has not reached it yet
	p.forgoLimitNotification()
	switch kind {
	case "reset":
		p.w.net.stats.fire("conn_reset")
		p.w.net.resetPair(c)
	case "notify":
		c.Write(notificationBytes(6, 4, nil))
		c.Close()
	default:
		c.Close()
	}
	return true
}

// forgoLimitNotification: the session is being ended by something else (the neighbour itself, the
// operator) while a Maximum-Prefixes NOTIFICATION is still owed: it may or may not arrive.
func (p *simPeer) forgoLimitNotification() {
	p.mu.Lock()
	// (an overrun caused by an UPDATE that is written after this instant, into a session that is
	// already being ended, is owed no NOTIFICATION either: see notePrefixLimit)
	p.ending = true
	if p.limitHit {
		got := 0
		for _, n := range p.notifs {
			if n.Code == 6 && n.Sub == 1 {
				got++
			}
		}
		if got < p.limitTrips {
			p.limitTrips--
			p.limitMaybe++
			p.w.probe("prefix_limit_notification_forgone")
		}
	}
	p.mu.Unlock()
}

func (p *simPeer) waitDown(max time.Duration) {
	p.mu.Lock()
	d := p.downCh
	up := p.up
	p.mu.Unlock()
	if !up || d == nil {
		return
	}
	select {
	case <-d:
	case <-time.After(max):
	}
}
