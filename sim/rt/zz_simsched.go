package runtime

import (
	"internal/runtime/sys"
	"unsafe"
)

var simsched struct {
	on      bool
	state   uint64
	yieldN  uint32
	selSalt uint32
	resume  guintptr
	picks   uint64
	bpicks  uint64 // picks of goroutines that belong to a bubble (progress of the simulated system)
	draws   uint64
	points  uint64
	yields  uint64
	preempt uint64
	buf     [1 << 16]guintptr
	trace   bool
	sig     uint64
	goid0   uint64
	stackAt uint64
}

func simrand() uint64 {
	x := simsched.state
	x ^= x >> 12
	x ^= x << 25
	x ^= x >> 27
	simsched.state = x
	return x * 2685821657736338717
}

// SimEnable turns on the seeded scheduler. GOMAXPROCS must be 1.
func SimEnable(seed uint64, yieldN uint32, selectShuffle bool) {
	if gomaxprocs != 1 {
		throw("SimEnable: GOMAXPROCS must be 1")
	}
	if seed == 0 {
		seed = 0x9e3779b97f4a7c15
	}
	simsched.state = seed
	simsched.yieldN = yieldN
	simsched.selSalt = 0
	if selectShuffle {
		simsched.selSalt = 1
	}
	simsched.resume = 0
	simsched.picks, simsched.draws, simsched.points, simsched.yields, simsched.preempt = 0, 0, 0, 0, 0
	simsched.sig = 0xcbf29ce484222325
	simsched.goid0 = getg().goid
	simsched.on = true
}

func SimDisable() { simsched.on = false }
func SimTrace(b bool) { simsched.trace = b }
func SimStackAt(n uint64) { simsched.stackAt = n }

// SimStats returns picks, draws, yield points reached, yields taken, involuntary preemptions.
func SimStats() (uint64, uint64, uint64, uint64, uint64) {
	return simsched.picks, simsched.draws, simsched.points, simsched.yields, simsched.preempt
}

// SimSig returns the schedule signature (hash of all scheduling decisions so far).
func SimSig() uint64 { return simsched.sig }

// SimPicks is safe to call from outside the bubble (watchdog).
func SimPicks() uint64 { return simsched.picks }

// SimBubblePicks counts scheduling decisions that ran a goroutine of the simulated system.
func SimBubblePicks() uint64 { return simsched.bpicks }

// SimRand lets the harness draw from the same stream (only from bubble goroutines).
func SimRand() uint64 { return simrand() }

// SimYield is a potential preemption point.
func SimYield() { simYield() }

//go:linkname internal_sync_runtime_simYield internal/sync.runtime_simYield
func internal_sync_runtime_simYield() { simYield() }

//go:linkname sync_runtime_simYield sync.runtime_simYield
func sync_runtime_simYield() { simYield() }

func simYield() {
	if !simsched.on {
		return
	}
	gp := getg()
	mp := gp.m
	if gp.bubble == nil || gp != mp.curg || mp.locks != 0 || mp.mallocing != 0 || mp.preemptoff != "" || mp.lockedg != 0 {
		return
	}
	if simsched.yieldN == 0 {
		return
	}
	simsched.points++
	if simsched.trace {
		print("YP goid=", gp.goid, " pts=", simsched.points, "\n")
		if simsched.stackAt != 0 && simsched.stackAt <= simsched.points && simsched.points < simsched.stackAt+6 {
			pc := sys.GetCallerPC()
			sp := sys.GetCallerSP()
			systemstack(func() {
				traceback(pc, sp, 0, gp)
			})
		}
	}
	if uint32(simrand()>>33)%simsched.yieldN != 0 {
		return
	}
	simsched.yields++
	mcall(gosched_m)
}

func simPrintCallers() {
	var pcs [12]uintptr
	n := callers(1, pcs[:])
	for i := 0; i < n; i++ {
		f := findfunc(pcs[i])
		if f.valid() {
			print("   ", funcname(f), "\n")
		}
	}
}

// simUserRand backs the unseeded global generators of math/rand and math/rand/v2.
//
//go:linkname simUserRand
func simUserRand() uint64 {
	if simsched.on {
		if gp := getg(); gp.bubble != nil && gp == gp.m.curg {
			if simsched.trace {
				print("URND goid=", gp.goid, "\n")
			}
			return simrand()
		}
	}
	return rand()
}

// simTimerRand gives a fake timer its tie-break value for timers due at the same instant.  The
// runtime re-draws it every time the timer is put on the heap, and a channel timer (Ticker, Timer)
// is put there whenever a goroutine blocks on its channel - for a select in the order of the
// channels' ADDRESSES (lock order).  Two tickers watched by one select would get their values in
// an order that depends on the heap layout, which is not reproducible from process to process
// (seen as 3 % diverging runs of the timer-heavy bfd family).  The value is therefore drawn once
// per timer, at its first use, in program order.
func simTimerRand(old uint32) uint32 {
	if !simsched.on {
		return cheaprand()
	}
	if old != 0 {
		return old
	}
	if simsched.trace {
		print("TRND goid=", getg().goid, "\n")
	}
	return uint32(simrand()>>32) | 1
}

func simSelectJ(n uint32) uint32 {
	if !simsched.on {
		return cheaprandn(n)
	}
	gp := getg()
	if simsched.selSalt == 0 || gp.bubble == nil {
		return n - 1
	}
	j := uint32(simrand()>>33) % n
	if simsched.trace {
		print("SEL goid=", gp.goid, " n=", n, " j=", j, "\n")
	}
	return j
}

// simPick chooses the next goroutine to run among all runnable ones.
// Runs on g0 with a P.
func simPick(pp *p) *g {
	n := 0
	q := runqdrain(pp)
	for !q.empty() && n < len(simsched.buf) {
		simsched.buf[n].set(q.pop())
		n++
	}
	if !q.empty() {
		throw("simPick: too many runnable goroutines")
	}
	if !sched.runq.empty() {
		lock(&sched.lock)
		for !sched.runq.empty() && n < len(simsched.buf) {
			simsched.buf[n].set(sched.runq.pop())
			n++
		}
		full := !sched.runq.empty()
		unlock(&sched.lock)
		if full {
			// choosing among a subset that depends on the queue layout would not replay
			throw("simPick: too many runnable goroutines")
		}
	}
	if n == 0 {
		return nil
	}
	simsched.picks++
	// canonical order: the runnable set, not the queue layout, decides (preemption-resume
	// and runnext kicks perturb the layout).
	for i := 1; i < n; i++ {
		x := simsched.buf[i]
		j := i - 1
		for j >= 0 && simsched.buf[j].ptr().goid > x.ptr().goid {
			simsched.buf[j+1] = simsched.buf[j]
			j--
		}
		simsched.buf[j+1] = x
	}
	idx := -1
	resumed := false
	// Goroutines outside the bubble (the hang watchdog, the test's main goroutine) go first, even
	// before a preempted goroutine is resumed: they take part in no decision, and a goroutine of the
	// simulated system that spins without ever blocking must not be able to starve the watchdog.
	for i := 0; i < n; i++ {
		if simsched.buf[i].ptr().bubble == nil {
			idx = i
			break
		}
	}
	if idx < 0 {
		if r := simsched.resume.ptr(); r != nil {
			simsched.resume = 0
			for i := 0; i < n; i++ {
				if simsched.buf[i].ptr() == r {
					idx = i
					simsched.preempt++
					resumed = true
					break
				}
			}
		}
	}
	if idx < 0 {
		if n == 1 {
			idx = 0
		} else {
			simsched.draws++
			idx = int(simrand() % uint64(n))
			// schedule signature: FNV-1a over (runnable-set size, chosen position) of every drawn
			// decision; forced picks and preemption resumes are not decisions
			simsched.sig = (simsched.sig ^ uint64(n)) * 0x100000001b3
			simsched.sig = (simsched.sig ^ uint64(idx)) * 0x100000001b3
		}
	}
	gp := simsched.buf[idx].ptr()
	if gp.bubble != nil {
		simsched.bpicks++
	}
	if simsched.trace && !resumed {
		print("PICK n=", n, " idx=", idx, " goid=", gp.goid, " bub=", gp.bubble != nil, " pts=", simsched.points, " pool=")
		for i := 0; i < n; i++ {
			print(simsched.buf[i].ptr().goid, ",")
		}
		print("\n")
	}
	for i := 0; i < n; i++ {
		if i != idx {
			runqput(pp, simsched.buf[i].ptr(), false)
		}
		simsched.buf[i] = 0
	}
	return gp
}

var _ = unsafe.Sizeof(0)
