#!/usr/bin/env python3
"""Apply a seeded change to /repo, run the given checks (quick tier), undo it, record the outcome in meta.json.
   seedtest.py <seeded-dir> <PROP> [<PROP>...] [--budget N] [--tier quick|thorough]"""
import json, os, subprocess, sys, re, time
d = os.path.abspath(sys.argv[1]); args = sys.argv[2:]
budget = None; tier = "quick"
if "--budget" in args:
    i = args.index("--budget"); budget = args[i+1]; del args[i:i+2]
if "--tier" in args:
    i = args.index("--tier"); tier = args[i+1]; del args[i:i+2]
props = args
patch = os.path.join(d, "patch.diff")
st = subprocess.run(["git", "-C", "/repo", "status", "--porcelain"], capture_output=True, text=True).stdout.strip()
if st:
    sys.exit("refusing: /repo has uncommitted changes:\n" + st)
subprocess.run(["git", "-C", "/repo", "apply", patch], check=True)
res = {}
try:
    for p in props:
        cmd = ["/verif/check", p, "--tier", tier] + (["--budget", budget] if budget else [])
        env = dict(os.environ, VERIF_NO_MINIMIZE="1")
        t0 = time.time()
        r = subprocess.run(cmd, capture_output=True, text=True, env=env, cwd="/verif")
        viol = re.findall(r"class=(\S+) subject=(.*?) \(x(\d+)\)", r.stdout)
        res[p] = {"exit": r.returncode, "wall_s": round(time.time()-t0), "classes": sorted(set(v[0] for v in viol)), "violating_runs": sum(int(v[2]) for v in viol),
                  "summary": [l for l in r.stdout.splitlines() if " runs in " in l][-1:] }
        print(p, res[p]["exit"], res[p]["classes"], res[p]["summary"])
finally:
    subprocess.run(["git", "-C", "/repo", "checkout", "--", "."], check=True)
    subprocess.run(["git", "-C", "/repo", "clean", "-fdq", "--", "pkg", "internal"], check=False)
mp = os.path.join(d, "meta.json")
meta = json.load(open(mp)) if os.path.exists(mp) else {}
meta.setdefault("checks_run", {}).update(res)
meta["detected_by"] = sorted(p for p, v in meta["checks_run"].items() if v["exit"] == 1)
json.dump(meta, open(mp, "w"), indent=1)
