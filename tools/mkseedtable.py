#!/usr/bin/env python3
"""Regenerate the seeded-change table of DESIGN.md (between the SEEDTABLE markers) from seeded/*/meta.json."""
import json, glob, os, re
V = os.path.dirname(os.path.dirname(os.path.abspath(__file__)))
rows = ["| id | breaks | change | needs | caught by (quick tier) | note |", "|---|---|---|---|---|---|"]
for d in sorted(glob.glob(os.path.join(V, "seeded", "M*"))):
    m = json.load(open(os.path.join(d, "meta.json")))
    det = ", ".join(m.get("detected_by") or []) or "-"
    classes = []
    for p, r in (m.get("checks_run") or {}).items():
        classes += [c for c in r.get("classes", []) if c.startswith(p)]
    note = m.get("note", "")
    cell = det + (" (" + ", ".join(sorted(set(c.split("/", 1)[1] for c in classes))[:4]) + ")" if classes else "")
    rows.append("| %s | %s | %s | %s | %s | %s |" % (m["id"].split("-")[0], m["breaks_property"], m.get("change", "").replace("|", "/"),
                                                m.get("needs_to_manifest", "").replace("|", "/"), cell, note))
f = os.path.join(V, "DESIGN.md")
s = open(f).read()
s = re.sub(r"<!-- SEEDTABLE BEGIN -->.*<!-- SEEDTABLE END -->", "<!-- SEEDTABLE BEGIN -->\n" + "\n".join(rows) + "\n<!-- SEEDTABLE END -->", s, flags=re.S)
open(f, "w").write(s)
print(len(rows) - 2, "rows")
