#!/usr/bin/env python3
"""Generate the build overlay for the gobgp deterministic simulator.

  mkoverlay.py <GOROOT> <REPO> <SIMDIR> <OUTDIR>

Writes patched copies of a handful of Go runtime/std files (string-anchored edits: an anchor
that does not match exactly the expected number of times aborts with exit 2), the additional
runtime file, and maps the harness sources in SIMDIR/server/*.go into REPO/pkg/server as
zz_verif_<name>_test.go.  Nothing is written under REPO or GOROOT.  Output: OUTDIR/overlay.json
"""
import glob
import json
import os
import re
import sys

GR, REPO, SIM, OUT = sys.argv[1:5]
os.makedirs(OUT, exist_ok=True)
ov = {}


def die(msg):
    sys.stderr.write("mkoverlay: " + msg + "\n")
    sys.exit(2)


def patch(rel, subs):
    src = os.path.join(GR, "src", rel)
    s = open(src).read()
    for old, new, cnt in subs:
        c = s.count(old)
        if c == 0 or (cnt and c != cnt):
            die("ANCHOR MISMATCH %s: %r found %d want %d" % (rel, old, c, cnt))
        s = s.replace(old, new)
    out = os.path.join(OUT, rel.replace("/", "__"))
    open(out, "w").write(s)
    ov[src] = out


def add(rel, text):
    out = os.path.join(OUT, rel.replace("/", "__"))
    open(out, "w").write(text)
    ov[os.path.join(GR, "src", rel)] = out


# ---------------------------------------------------------------- runtime: determinism
# 1. maps: constant hash seed and iteration offsets
n_maps = 0
for f in sorted(glob.glob(GR + "/src/internal/runtime/maps/*.go")):
    if f.endswith("_test.go"):
        continue
    s = open(f).read()
    if ", m.seed)" in s or "= rand()" in s:
        rel = os.path.relpath(f, GR + "/src")
        subs = []
        if ", m.seed)" in s:
            subs.append((", m.seed)", ", 0)", 0))
        if "it.entryOffset = rand()" in s:
            subs += [("it.entryOffset = rand()", "it.entryOffset = 0", 1),
                     ("it.dirOffset = rand()", "it.dirOffset = 0", 1)]
        if subs:
            patch(rel, subs)
            n_maps += 1
if n_maps < 2:
    die("maps patches: expected at least 2 files, got %d" % n_maps)
# 2. hash keys
patch("runtime/alg.go", [
    ("key[i] = bootstrapRand()", "key[i] = uint64(i+1) * 0x9e3779b97f4a7c15", 1),
    ("hashkey[i] = uintptr(bootstrapRand())", "hashkey[i] = uintptr(i+1) * 0x9e3779b9", 1)])
# 3. sync.Map seed
patch("internal/sync/hashtriemap.go", [("ht.seed = uintptr(runtime_rand())", "ht.seed = 0x9e3779b9", 1)])
# 4. select poll order + yield
patch("runtime/select.go", [
    ("j := cheaprandn(uint32(norder + 1))", "j := simSelectJ(uint32(norder + 1))", 1),
    ("\tgp := getg()\n\tif debugSelect {\n\t\tprint(\"select: cas0=\"",
     "\tsimYield()\n\tgp := getg()\n\tif debugSelect {\n\t\tprint(\"select: cas0=\"", 1)])
# 5. chan ops yield
patch("runtime/chan.go", [
    ("func chansend(c *hchan, ep unsafe.Pointer, block bool, callerpc uintptr) bool {\n",
     "func chansend(c *hchan, ep unsafe.Pointer, block bool, callerpc uintptr) bool {\n\tsimYield()\n", 1),
    ("func chanrecv(c *hchan, ep unsafe.Pointer, block bool) (selected, received bool) {\n",
     "func chanrecv(c *hchan, ep unsafe.Pointer, block bool) (selected, received bool) {\n\tsimYield()\n", 1)])
# 6. fake-timer tie break
patch("runtime/time.go", [("t.rand = cheaprand()", "t.rand = simTimerRand(t.rand)", 1),
                          ("\t\tt.isFake = true\n", "\t\tt.isFake = true\n\t\tt.rand = simTimerRand(0)\n", 2),
                          ("\tt.trace(\"unlockAndRun\")\n", "\tt.trace(\"unlockAndRun\")\n\tif simsched.trace && bubble != nil {\n\t\tprint(\"TRUN when=\", t.when, \" rand=\", t.rand, \" period=\", t.period, \"\\n\")\n\t}\n", 1)])
# 6b. sync.Pool in race builds drops one Put in four at random (runtime.randn, unseeded): the pools
#     of fmt/slog then take other paths in a -race build than in a plain one and from process to
#     process.  Never drop.
patch("sync/pool.go", [("if runtime_randn(4) == 0 {", "if false && runtime_randn(4) == 0 {", 1)])
# 7. math/rand globals: the unseeded top-level generators of math/rand and math/rand/v2 read
#    runtime.rand; route them (and only them) to the sim stream for bubble goroutines.  runtime.rand
#    itself stays untouched: map seeds and sync.Pool's race-mode random drop also use it, and their
#    call counts depend on pool contents left over from before the run.
patch("math/rand/rand.go", [("//go:linkname runtime_rand runtime.rand\n", "//go:linkname runtime_rand runtime.simUserRand\n", 1)])
patch("math/rand/v2/rand.go", [("//go:linkname runtime_rand runtime.rand\n", "//go:linkname runtime_rand runtime.simUserRand\n", 1)])
# 8. scheduler
patch("runtime/proc.go", [
    ("const randomizeScheduler = raceenabled", "const randomizeScheduler = false", 1),
    ("\tif pp.schedtick%61 == 0 && !sched.runq.empty() {",
     "\tif !simsched.on && pp.schedtick%61 == 0 && !sched.runq.empty() {", 1),
    ("\t\t// Retake the P if it's there for more than 1 sysmon tick (at least 20us).\n",
     "\t\tif simsched.on {\n\t\t\tthread.resume()\n\t\t\tgoto done\n\t\t}\n\t\t// Retake the P if it's there for more than 1 sysmon tick (at least 20us).\n", 1),
    ("\t// local runq\n\tif gp, inheritTime := runqget(pp); gp != nil {",
     "\tif simsched.on {\n\t\tif gp := simPick(pp); gp != nil {\n\t\t\treturn gp, false, false\n\t\t}\n\t}\n\n\t// local runq\n\tif gp, inheritTime := runqget(pp); gp != nil {", 1),
    ("\t// status is Gwaiting or Gscanwaiting, make Grunnable and put on runq\n",
     "\tif simsched.trace {\n\t\tprint(\"READY goid=\", gp.goid, \" by=\", getg().goid, \"\\n\")\n\t\tif getg().goid == 0 {\n\t\t\tsimPrintCallers()\n\t\t}\n\t}\n\t// status is Gwaiting or Gscanwaiting, make Grunnable and put on runq\n", 1),
    ("\tdropg()\n\tif preempted && sched.gcwaiting.Load() {",
     "\tdropg()\n\tif preempted && simsched.on && gp.bubble != nil {\n\t\tsimsched.resume.set(gp)\n\t}\n\tif preempted && sched.gcwaiting.Load() {", 1),
])
add("runtime/zz_simsched.go", open(os.path.join(SIM, "rt", "zz_simsched.go")).read())
# 9. mutex yield points, starvation mode off
patch("internal/sync/runtime.go", [
    ("//go:linkname runtime_nanotime\nfunc runtime_nanotime() int64",
     "//go:linkname runtime_nanotime\nfunc runtime_nanotime() int64\n\n//go:linkname runtime_simYield\nfunc runtime_simYield()", 1)])
patch("internal/sync/mutex.go", [
    ("runtime_nanotime()-waitStartTime > starvationThresholdNs",
     "false && runtime_nanotime()-waitStartTime > starvationThresholdNs", 1),
    ("func (m *Mutex) Lock() {\n", "func (m *Mutex) Lock() {\n\truntime_simYield()\n", 1),
    ("\t\tm.unlockSlow(new)\n\t}\n}", "\t\tm.unlockSlow(new)\n\t}\n\truntime_simYield()\n}", 1)])
patch("sync/rwmutex.go", [
    ("func (rw *RWMutex) RLock() {\n", "func (rw *RWMutex) RLock() {\n\truntime_simYield()\n", 1),
    ("\t\trw.rUnlockSlow(r)\n\t}\n\tif race.Enabled {\n\t\trace.Enable()\n\t}\n}",
     "\t\trw.rUnlockSlow(r)\n\t}\n\tif race.Enabled {\n\t\trace.Enable()\n\t}\n\truntime_simYield()\n}", 1)])
patch("sync/runtime.go", [
    ("func runtime_Semacquire(s *uint32)\n", "func runtime_Semacquire(s *uint32)\n\nfunc runtime_simYield()\n", 1)])

# ---------------------------------------------------------------- net: simulated TCP connections


def rd(rel):
    return open(os.path.join(GR, "src", rel)).read()


def wr(rel, s):
    out = os.path.join(OUT, rel.replace("/", "__"))
    open(out, "w").write(s)
    ov[os.path.join(GR, "src", rel)] = out


f = rd("net/fd_posix.go")
if f.count("type netFD struct {\n") != 1:
    die("net/fd_posix.go netFD anchor")
wr("net/fd_posix.go", f.replace("type netFD struct {\n", "type netFD struct {\n\tsim SimConn\n"))
s = rd("net/net.go")
calls = {"Read": "c.fd.sim.Read(b)", "Write": "c.fd.sim.Write(b)", "Close": "c.fd.sim.Close()",
         "LocalAddr": "c.fd.sim.LocalAddr()", "RemoteAddr": "c.fd.sim.RemoteAddr()",
         "SetDeadline": "c.fd.sim.SetDeadline(t)", "SetReadDeadline": "c.fd.sim.SetReadDeadline(t)",
         "SetWriteDeadline": "c.fd.sim.SetWriteDeadline(t)", "SetReadBuffer": "nil", "SetWriteBuffer": "nil"}
for m, call in calls.items():
    pat = re.compile(r"(func \(c \*conn\) %s\([^)]*\) [^{]*\{\n)" % m)
    if len(pat.findall(s)) != 1:
        die("net/net.go anchor conn.%s" % m)
    s = pat.sub(lambda mo: mo.group(1) + "\tif c != nil && c.fd != nil && c.fd.sim != nil {\n\t\treturn %s\n\t}\n" % call, s)
s += '''
// SimConn is the transport behind a simulated connection.
type SimConn interface {
	Read(b []byte) (int, error)
	Write(b []byte) (int, error)
	Close() error
	LocalAddr() Addr
	RemoteAddr() Addr
	SetDeadline(t time.Time) error
	SetReadDeadline(t time.Time) error
	SetWriteDeadline(t time.Time) error
}

// NewSimTCPConn wraps a simulated transport in a *TCPConn.
func NewSimTCPConn(s SimConn) *TCPConn { return &TCPConn{conn{&netFD{sim: s, net: "tcp"}}} }

// SimDialHook, when set, serves every Dial.
var SimDialHook func(ctx context.Context, network, address string, laddr Addr) (Conn, error)
'''
s += '''
// SimUDP is the extra method a simulated datagram socket provides.
type SimUDP interface {
	SimConn
	ReadFromUDP(b []byte) (int, *UDPAddr, error)
}

// NewSimUDPConn wraps a simulated datagram socket in a *UDPConn.
func NewSimUDPConn(s SimUDP) *UDPConn { return &UDPConn{conn{&netFD{sim: s, net: "udp"}}} }

// SimListenPacketHook, when set, serves every ListenConfig.ListenPacket.
var SimListenPacketHook func(ctx context.Context, network, address string) (PacketConn, error)

type simRawConn struct{}

func (simRawConn) Control(f func(fd uintptr)) error  { return nil }
func (simRawConn) Read(f func(fd uintptr) bool) error  { return syscall.EINVAL }
func (simRawConn) Write(f func(fd uintptr) bool) error { return syscall.EINVAL }
'''
wr("net/net.go", s)
u = rd("net/udpsock.go")
for m, ret in {"SyscallConn": "simRawConn{}, nil", "ReadFromUDP": "c.fd.sim.(SimUDP).ReadFromUDP(b)"}.items():
    pat = re.compile(r"(func \(c \*UDPConn\) %s\([^)]*\) [^{]*\{\n)" % m)
    if len(pat.findall(u)) != 1:
        die("net/udpsock.go anchor UDPConn.%s" % m)
    u = pat.sub(lambda mo: mo.group(1) + "\tif c != nil && c.fd != nil && c.fd.sim != nil {\n\t\treturn %s\n\t}\n" % ret, u)
wr("net/udpsock.go", u)
t = rd("net/tcpsock.go")
for m, ret in {"SyscallConn": "nil, syscall.EINVAL", "CloseRead": "nil", "CloseWrite": "nil", "SetLinger": "nil",
               "SetKeepAlive": "nil", "SetKeepAlivePeriod": "nil", "SetNoDelay": "nil"}.items():
    pat = re.compile(r"(func \(c \*TCPConn\) %s\([^)]*\) [^{]*\{\n)" % m)
    if len(pat.findall(t)) != 1:
        die("net/tcpsock.go anchor TCPConn.%s" % m)
    t = pat.sub(lambda mo: mo.group(1) + "\tif c != nil && c.fd != nil && c.fd.sim != nil {\n\t\treturn %s\n\t}\n" % ret, t)
wr("net/tcpsock.go", t)
d = rd("net/dial.go")
a = "func (d *Dialer) DialContext(ctx context.Context, network, address string) (Conn, error) {\n"
if d.count(a) != 1:
    die("net/dial.go anchor DialContext")
d = d.replace(a, a + "\tif h := SimDialHook; h != nil {\n\t\treturn h(ctx, network, address, d.LocalAddr)\n\t}\n")
a = "func (lc *ListenConfig) ListenPacket(ctx context.Context, network, address string) (PacketConn, error) {\n"
if d.count(a) != 1:
    die("net/dial.go anchor ListenPacket")
wr("net/dial.go", d.replace(a, a + "\tif h := SimListenPacketHook; h != nil {\n\t\treturn h(ctx, network, address)\n\t}\n"))

# ---------------------------------------------------------------- harness sources into the module
n_h = 0
for f in sorted(glob.glob(os.path.join(SIM, "server", "*.go"))):
    name = os.path.basename(f)[:-3]
    ov[os.path.join(REPO, "pkg", "server", "zz_verif_%s_test.go" % name)] = f
    n_h += 1
for f in sorted(glob.glob(os.path.join(SIM, "table", "*.go"))):
    name = os.path.basename(f)[:-3]
    ov[os.path.join(REPO, "internal", "pkg", "table", "zz_verif_%s_test.go" % name)] = f
    n_h += 1
json.dump({"Replace": ov}, open(os.path.join(OUT, "overlay.json"), "w"), indent=1)
print("overlay: %d runtime/std files, %d harness files" % (len(ov) - n_h, n_h))
