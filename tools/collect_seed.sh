#!/bin/sh
# collect_seed.sh <worktree> <seed-id> <property> : copy a sub-agent's change out of its scratch worktree
set -e
wt=$1; id=$2; prop=$3
d=/verif/seeded/$id
mkdir -p $d
git -C $wt diff -- . ':!*_test.go' > $d/patch.diff
demo=$(git -C $wt status --short | awk '/zz_mutdemo_test.go/ {print $2}')
cp $wt/$demo $d/zz_mutdemo_test.go
pkg=$(dirname $demo)
[ -f $d/meta.json ] || cat > $d/meta.json <<EOM
{
 "id": "$id",
 "breaks_property": "$prop",
 "origin": "independent sub-agent given only the property text and a scratch worktree",
 "change": "",
 "needs_to_manifest": "",
 "demo": "zz_mutdemo_test.go (package dir $pkg, TestMutDemo)"
}
EOM
echo "$d: $(wc -l < $d/patch.diff) diff lines, demo pkg $pkg"
