#!/bin/bash
# Confirm a seeded change in a scratch worktree: demo fails with it, passes without it, and the
# existing suites of the touched packages still pass with it.  Results -> <dir>/confirm.log
#   confirm_seed.sh <seeded-dir> [demo package dir, default pkg/server]
set -u
D=$(cd "$1" && pwd); PKG=${2:-pkg/server}; BASE=${3:-HEAD}
N=$(basename $D); WT=/tmp/confirm-$N
git -C /repo worktree remove --force $WT 2>/dev/null
git -C /repo worktree add -q --detach $WT $BASE || exit 2
cd $WT
cp go.mod /tmp/confirm-$N.mod; cp go.sum /tmp/confirm-$N.sum
export GOFLAGS=-mod=mod GOPROXY=off
T="go test -modfile=/tmp/confirm-$N.mod -vet=off -count=1"
LOG=$D/confirm.log; : > $LOG
cp $D/zz_mutdemo_test.go $WT/$PKG/zz_mutdemo_test.go
RACE=""; grep -q "needs -race" $D/meta.json 2>/dev/null && RACE="-race"
echo "== demo WITHOUT the change (expect PASS)" >> $LOG
unshare -n bash -c "ip link set lo up; $T $RACE -run 'TestMutDemo\$' ./$PKG/" >> $LOG 2>&1; echo "exit=$?" >> $LOG
git apply $D/patch.diff || { echo "patch does not apply" >> $LOG; exit 2; }
echo "== demo WITH the change (expect FAIL)" >> $LOG
unshare -n bash -c "ip link set lo up; $T $RACE -run 'TestMutDemo\$' ./$PKG/" >> $LOG 2>&1; echo "exit=$?" >> $LOG
echo "== existing suites WITH the change (expect ok)" >> $LOG
unshare -n bash -c "ip link set lo up; $T -skip 'TestMutDemo\$' ./pkg/server/ ./internal/pkg/table/ ./pkg/packet/bgp/" >> $LOG 2>&1; echo "exit=$?" >> $LOG
cd /; git -C /repo worktree remove --force $WT; rm -f /tmp/confirm-$N.mod /tmp/confirm-$N.sum
grep -n "^exit=\|^ok\|^FAIL\|^---" $LOG | head -20
