#!/bin/bash
# allquick.sh <seed> [tier] : run every claimed check's command of a tier on /repo's current tree with VERIF_SEED=<seed>
cd "$(dirname "$0")/.."
SEED=${1:-1}; TIER=${2:-quick}
mkdir -p build/allquick
for p in $(python3 -c "import json;print(' '.join(c['property_id'] for c in json.load(open('MANIFEST.json'))['checks']))"); do
  VERIF_SEED=$SEED ./check $p --tier $TIER --seed $SEED > build/allquick/$p-$SEED.log 2>&1; rc=$?
  echo "$p seed=$SEED rc=$rc $(tail -n 1 build/allquick/$p-$SEED.log | cut -c1-160)"
done
