#!/bin/bash
# Build the simulator binary from /repo's current working tree with the overlay.
#   build.sh [race]
set -e
export GOFLAGS=-mod=mod GOPROXY=off GOSUMDB=off GOTOOLCHAIN=local CGO_ENABLED=1
VERIF=$(cd "$(dirname "$0")/.." && pwd)
REPO=${VERIF_REPO:-/repo}
GR=/opt/veriftools/go1.26.8
B=$VERIF/build
mkdir -p $B/ov
export GOCACHE=${GOCACHE:-$B/gocache}
python3 $VERIF/tools/mkoverlay.py $GR $REPO $VERIF/sim $B/ov >/dev/null || exit 2
cp $REPO/go.mod $B/go.mod
cp $REPO/go.sum $B/go.sum
OUT=$B/vsim.test
FLAGS=""
if [ "$1" = "race" ]; then OUT=$B/vsim.race.test; FLAGS="-race"; fi
cd $REPO
$GR/bin/go test -c $FLAGS -vet=off -overlay $B/ov/overlay.json -modfile=$B/go.mod -o $OUT ./pkg/server || exit 2
echo built $OUT
