#!/bin/bash
# finalthorough.sh <seed> <budget-seconds> <property>... : thorough tier of the named checks with a wall-clock budget each
cd "$(dirname "$0")/.."
SEED=$1; B=$2; shift 2
mkdir -p build/allquick
for p in "$@"; do
  VERIF_SEED=$SEED ./check $p --tier thorough --seed $SEED --budget $B > build/allquick/$p-$SEED-thorough.log 2>&1; rc=$?
  echo "$p seed=$SEED rc=$rc $(tail -n 1 build/allquick/$p-$SEED-thorough.log | cut -c1-160)"
done
