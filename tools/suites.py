"""Which simulated suites decide which property, and how evidence is described."""

WORLD_RULE = ("seeded generation of a configuration (3-6 neighbours of kinds eBGP/iBGP/RR-client/RS-client, ADD-PATH receive/send-max, "
              "2-octet-AS and extended-message neighbours, timers) and a phased script of concurrent announce/replace/withdraw over a shared "
              "prefix pool, session flaps (reset/close/notification), peer delete/add, API add/delete, soft resets and route refresh; one "
              "scheduler seed + yield density + select shuffle per run. A run is NON-TRIVIAL if it performed at least one quiescent check on a "
              "non-empty Loc-RIB and fired at least one probe of the property; DISTINCT by (schedule signature = hash of every scheduling "
              "decision, event-log hash).")

PROP_INFO = {
    "C01": {"level": "exploration", "rule": WORLD_RULE, "probes": ["view_route_checked"], "budget": {"quick": 60, "thorough": 1200}},
    "C02": {"level": "exploration", "rule": WORLD_RULE, "probes": ["announce"], "budget": {"quick": 60, "thorough": 1200}},
    "C09": {"level": "exploration", "rule": WORLD_RULE, "probes": ["view_route_checked"], "budget": {"quick": 60, "thorough": 1200}},
}

SUITES = {
    "C01": {"quick": [{"family": "world", "mode": "", "share": 3}, {"family": "world", "mode": "nofault", "share": 1}],
            "thorough": [{"family": "world", "mode": "", "share": 3}, {"family": "world", "mode": "nofault", "share": 1}]},
    "C02": {"quick": [{"family": "world", "mode": "", "share": 3}, {"family": "world", "mode": "nofault", "share": 1}],
            "thorough": [{"family": "world", "mode": "", "share": 3}, {"family": "world", "mode": "nofault", "share": 1}]},
    "C09": {"quick": [{"family": "world", "mode": "", "share": 3}, {"family": "world", "mode": "nofault", "share": 1}],
            "thorough": [{"family": "world", "mode": "", "share": 3}, {"family": "world", "mode": "nofault", "share": 1}]},
}

ALL_FAMILIES = [("world", ""), ("world", "nofault")]
PROP_INFO["C20"] = {"level": "exploration", "rule": WORLD_RULE, "probes": [], "budget": {"quick": 60, "thorough": 1200}}
SUITES["C20"] = {"quick": [{"family": "world", "mode": "", "share": 1}], "thorough": [{"family": "world", "mode": "", "share": 1}]}
SUITES["C01"]["quick"].append({"family": "world", "mode": "addpath", "share": 2})
SUITES["C01"]["thorough"].append({"family": "world", "mode": "addpath", "share": 2})
ALL_FAMILIES.append(("world", "addpath"))

PROP_INFO["X_ADDPATH"] = {"level": "exploration", "rule": WORLD_RULE, "probes": [], "budget": {"quick": 60, "thorough": 600}}
SUITES["X_ADDPATH"] = {"quick": [{"family": "world", "mode": "addpath", "share": 1}], "thorough": [{"family": "world", "mode": "addpath", "share": 1}]}

PROP_INFO["C03"] = {"level": "exploration", "rule": WORLD_RULE + " For C03 the candidate sets are those the Loc-RIB holds at each quiescent point; arrival order and age come from the simulated sessions.", "probes": ["best_checked"], "budget": {"quick": 60, "thorough": 1200}}
SUITES["C03"] = {"quick": [{"family": "world", "mode": "select", "share": 3}, {"family": "world", "mode": "", "share": 1}],
                 "thorough": [{"family": "world", "mode": "select", "share": 3}, {"family": "world", "mode": "", "share": 1}]}
ALL_FAMILIES.append(("world", "select"))

FSM_RULE = ("seeded sequences over the event alphabet {inbound connect / listener accept|refuse|timeout, OPEN (valid, bad version, bad AS, bad identifier, "
            "hold 1|2, unsupported optional parameter), KEEPALIVE, UPDATE, ROUTE-REFRESH, NOTIFICATION, bad header (marker, short, long, type), remote close, "
            "reset, silence for t (up to 241 s virtual), disable, enable, shutdown, reset} applied to one neighbour (passive or active, eBGP or iBGP, hold 9..90), "
            "each step compared with an executable RFC 4271 state-machine model incl. exact timer instants. NON-TRIVIAL: the run reached OpenSent at least once and "
            "performed the final state comparison; DISTINCT by (schedule signature, event-log hash).")
PROP_INFO["C07"] = {"level": "exploration", "rule": FSM_RULE, "probes": ["opensent", "opensent_outbound"], "budget": {"quick": 60, "thorough": 1200}}
SUITES["C07"] = {"quick": [{"family": "fsm", "mode": "", "share": 1}], "thorough": [{"family": "fsm", "mode": "", "share": 1}]}
PROP_INFO["C08"] = {"level": "exploration", "rule": "seeded neighbour configuration (families, add-path receive/send-max, hold time incl. 0, 4-octet local AS) x seeded received OPEN (hold 0..180, 2-octet-only, no multiprotocol capability, extended message, add-path modes, duplicated and unknown capabilities); after establishment: OPEN sent vs configuration, ListPeer timers, keepalive cadence and hold expiry on the virtual clock, encoding of an advertised route (path ids, AS_TRANS/AS4_PATH), acceptance of ADD-PATH-encoded and 4096/4097/5000-octet UPDATEs. NON-TRIVIAL: at least one negotiation check executed; DISTINCT by (schedule signature, event-log hash).", "probes": ["nego_checked"], "budget": {"quick": 60, "thorough": 1200}}
SUITES["C08"] = {"quick": [{"family": "fsm", "mode": "nego", "share": 1}], "thorough": [{"family": "fsm", "mode": "nego", "share": 1}]}
ALL_FAMILIES += [("fsm", ""), ("fsm", "nego")]
WIRE_RULE = ("catalogue of UPDATE faults written from RFC 7606 s.3/s.5.3/s.7 and RFC 4271 s.6.3 (%d entries: per-attribute bad length / flags / value, duplicate, missing mandatory, "
             "attribute and total-length overruns, bad withdrawn length, bad NLRI, unknown well-known) applied to valid base UPDATEs whose attribute order is permuted per case, alone and in pairs, "
             "on eBGP and iBGP sessions with treat-as-withdraw on and off, between valid UPDATEs on a live session with an observer peer. A catalogue CELL is (fault[+fault], session kind, "
             "taw on/off). NON-TRIVIAL: at least one faulty UPDATE was delivered on an established session; DISTINCT by (schedule signature, event-log hash).") % 31
PROP_INFO["C06"] = {"level": "fault_enumeration", "rule": WIRE_RULE, "probes": ["fault_treat-as-withdraw", "fault_session-reset", "fault_attribute-discard", "fault_none"], "budget": {"quick": 60, "thorough": 900}}
SUITES["C06"] = {"quick": [{"family": "wire", "mode": "malformed", "share": 1}], "thorough": [{"family": "wire", "mode": "malformed", "share": 1}]}
PROP_INFO["C05"] = {"level": "exploration", "rule": "valid messages of every type (KEEPALIVE, ROUTE-REFRESH, withdraw, IPv6 MP_REACH announce, IPv4 announce with a rich attribute set, OPEN) under the options negotiated on the session (ADD-PATH, 2-octet AS, extended message) are damaged in flight (bit flips, byte insertion/deletion, truncation, header length and attribute length rewrites, random bodies and types, oversized claims, cut mid-message) and delivered fragmented; an API client lists and renders (String/JSON/Serialize) every stored path. Oracle: no panic, no hang, and after any damage that does not end the session the next valid UPDATE is parsed in frame. NON-TRIVIAL: at least one damaged message was delivered; DISTINCT by (schedule signature, event-log hash).", "probes": ["survived_mutation", "reset_by_mutation"], "budget": {"quick": 60, "thorough": 900}}
SUITES["C05"] = {"quick": [{"family": "wire", "mode": "fuzz", "share": 1}], "thorough": [{"family": "wire", "mode": "fuzz", "share": 1}]}
ALL_FAMILIES += [("wire", "malformed"), ("wire", "fuzz")]
GR_RULE = ("one GR-capable neighbour (GR on/off, restart time 10..120 s, N bit, capability listing v4 / v6 / both, optionally LLGR) announcing routes over one or two families, two observers; "
           "loss kinds {transport reset, close, hold-timer expiry (neighbour goes silent), NOTIFICATION, Hard Reset, administrative shutdown, disable, delete peer}; then either no reconnection "
           "(probes 200 ms before and after the restart / LLGR deadlines) or reconnection inside the window with or without the R bit, a possibly different capability, partial re-announcement, "
           "End-of-RIB per family in drawn order, optionally a second loss inside the window. NON-TRIVIAL: at least one probe compared a non-empty route set after a session loss; DISTINCT by "
           "(schedule signature, event-log hash).")
PROP_INFO["C12"] = {"level": "exploration", "rule": GR_RULE, "probes": ["loss_graceful_reset", "loss_graceful_close", "loss_graceful_holdexp", "loss_graceful_notif", "loss_nongraceful_reset", "loss_nongraceful_notif", "loss_nongraceful_hardreset", "loss_nongraceful_shutdown"], "budget": {"quick": 60, "thorough": 1200}}
SUITES["C12"] = {"quick": [{"family": "gr", "mode": "", "share": 2}, {"family": "gr", "mode": "llgr", "share": 1}], "thorough": [{"family": "gr", "mode": "", "share": 2}, {"family": "gr", "mode": "llgr", "share": 1}]}
ALL_FAMILIES += [("gr", ""), ("gr", "llgr")]

PROP_INFO["C11"] = {"level": "exploration", "rule": WORLD_RULE + " Mode pack: announcements carry padded COMMUNITIES (10..9000 entries, around the 255-octet and 4096-octet boundaries; beyond 4096 only from extended-message neighbours), bursts of 50..2100 prefixes sharing one attribute set, so that the coalescing sender packs schedule-dependent batches; framing, per-message size limit and the C01 view equality are checked, and a route whose single-route UPDATE exceeds a session's maximum must simply be absent there.", "probes": ["burst", "oversize_route_for_session"], "budget": {"quick": 60, "thorough": 1200}}
SUITES["C11"] = {"quick": [{"family": "world", "mode": "pack", "share": 1}], "thorough": [{"family": "world", "mode": "pack", "share": 1}]}
ALL_FAMILIES += [("world", "pack")]

PROP_INFO["C15"] = {"level": "exploration", "rule": "metamorphic pairs: 3-5 neighbours (eBGP/iBGP/RR client), a pool of 4 generated policies (prefix-set / neighbour-set / community conditions; reject, set-med, set-local-pref, add-community actions), global import/export assignment (P0 -> P1) changed for import, export or both; run A = history under P0, then the change and the corresponding soft reset in/out/both (or ROUTE-REFRESH from the peers) issued concurrently with further announcements/withdrawals, then the same reset again; run B = the same history under P1 from the start. Final Loc-RIB and all peer views of A and B must be equal, and the repeated reset must change no view. NON-TRIVIAL: both runs completed with a policy change that alters at least one assignment; DISTINCT by (schedule signature, event-log hash).", "probes": ["soft_reset", "route_refresh_sent"], "budget": {"quick": 60, "thorough": 1200}}
SUITES["C15"] = {"quick": [{"family": "reset", "mode": "", "share": 1}], "thorough": [{"family": "reset", "mode": "", "share": 1}]}
ALL_FAMILIES += [("reset", "")]

SUITES["C20"] = {"quick": [{"family": "world", "mode": "", "share": 2}, {"family": "fsm", "mode": "", "share": 1}, {"family": "gr", "mode": "", "share": 1}],
                 "thorough": [{"family": "world", "mode": "", "share": 3}, {"family": "world", "mode": "addpath", "share": 1}, {"family": "fsm", "mode": "", "share": 2}, {"family": "gr", "mode": "", "share": 1}, {"family": "wire", "mode": "fuzz", "share": 1},
                              {"family": "world", "mode": "", "share": 3, "race": True}, {"family": "fsm", "mode": "", "share": 1, "race": True}, {"family": "gr", "mode": "", "share": 1, "race": True}]}
PROP_INFO["C20"]["rule"] = "all simulation families (world, fsm, gr, wire; thorough: also with the race detector on the same seeded schedules): every run ends with Stop / StopBgp / delete-all-peers at the point the script reached; monitors: process crash (panic), no scheduling progress for 20 s of real time (hang/deadlock watchdog), synctest deadlock detection, goroutines of the bubble left after shutdown (stack dump), connections handed to the daemon still open after shutdown, data race reports. NON-TRIVIAL: the run executed at least one quiescent check; DISTINCT by (schedule signature, event-log hash)."
RPKI_RULE = ("two simulated RTR caches (own RFC 6810 encoder) reached through the simulated dial seam; per cache: record add/remove with or without Serial Notify, duplicate announcements, "
             "cache restart with a new session id, connection resets, refused dials; API: AddRpki/DeleteRpki/EnableRpki/DisableRpki/ResetRpki (soft/hard); BGP routes from an eBGP and an iBGP "
             "neighbour with AS_PATHs ending in SEQUENCE / SET / empty; waits across the cache lifetime (60 s). Oracle at probes: ListRpkiTable per cache == records confirmed by the last End-of-Data "
             "(caches whose content is not pinned down - mid-lifetime, after injected corruption - are skipped for equality) and ListPath validation == RFC 6811 over the table. NON-TRIVIAL: at least "
             "one probe compared a non-empty ROA set; DISTINCT by (schedule signature, event-log hash).")
PROP_INFO["C16"] = {"level": "exploration", "rule": RPKI_RULE, "probes": ["rtr_end_of_data"], "budget": {"quick": 60, "thorough": 1200}}
SUITES["C16"] = {"quick": [{"family": "rpki", "mode": "", "share": 1}], "thorough": [{"family": "rpki", "mode": "", "share": 3}, {"family": "rpki", "mode": "corrupt", "share": 1}]}
ALL_FAMILIES += [("rpki", ""), ("rpki", "corrupt")]
VPN_RULE = ("two PE neighbours (route-reflector clients, VPNv4, RT-Constrain negotiated on a per-run basis) and one or two CE neighbours attached to VRFs red/blue; VRFs green/grey with overlapping "
            "import/export targets added and deleted through the API and originating routes; PE VPNv4 announcements with drawn target sets, withdrawals, CE announcements, RT membership "
            "announce / withdraw / default membership, session flaps. Oracle at probes (set algebra over the script's history): each CE view, each PE view (filtered by its memberships when "
            "RT-Constrain is negotiated), exported route targets, and ListPath(vrf). NON-TRIVIAL: a probe compared a non-empty VPN route set; DISTINCT by (schedule signature, event-log hash).")
PROP_INFO["C17"] = {"level": "exploration", "rule": VPN_RULE, "probes": ["vpn_announce", "ce_announce", "vrf_originate"], "budget": {"quick": 60, "thorough": 1200}}
SUITES["C17"] = {"quick": [{"family": "vpn", "mode": "", "share": 1}], "thorough": [{"family": "vpn", "mode": "", "share": 1}]}
ALL_FAMILIES += [("vpn", "")]

MON_RULE = ("seeded scripts over three neighbours (2- and 4-octet AS, one 2-octet-only speaker, optional ADD-PATH receive, IPv4/IPv6), an optional import "
            "policy, two simulated BMP stations (RFC 7854/9069 reader written independently of gobgp's bmp package) and the MRT writer dumping to "
            "scratch files read by an independent RFC 6396/8050 parser. Phases run neighbour activity (announce/replace/withdraw/flap/End-of-RIB) "
            "concurrently with monitoring activity: station add/delete with each monitoring policy, connection reset, refuse-then-accept, stalled reader "
            "(back-pressure), statistics timer, MRT enable (updates or table, rotation or dump interval). At quiescent points the peers, routes and "
            "attributes decoded from the BMP stream and from the newest table dump are compared with the daemon's neighbour list, Adj-RIB-In and "
            "global table read through the API; after shutdown every dump file must be framed exactly and the update dumps must reproduce, in order, "
            "the UPDATEs the neighbours sent. A run is NON-TRIVIAL if at least one quiescent comparison ran against a connected station or a parsed "
            "dump with a non-empty table; DISTINCT by (schedule signature, event-log hash).")
PROP_INFO["C19"] = {"level": "exploration", "rule": MON_RULE, "probes": ["bmp_route_monitoring", "bmp_initiation"], "budget": {"quick": 60, "thorough": 1200}}
SUITES["C19"] = {"quick": [{"family": "mon", "mode": "", "share": 3}, {"family": "rpki", "mode": "corrupt", "share": 1}],
                 "thorough": [{"family": "mon", "mode": "", "share": 3}, {"family": "rpki", "mode": "corrupt", "share": 1}]}
ALL_FAMILIES.append(("mon", ""))

# C20 also runs the families with external services (monitoring stations, dump files, RTR caches, VRFs)
SUITES["C20"]["quick"] += [{"family": "mon", "mode": "", "share": 1}, {"family": "rpki", "mode": "", "share": 1}, {"family": "world", "mode": "pack", "share": 1}, {"family": "vpn", "mode": "", "share": 1}]
SUITES["C20"]["thorough"] += [{"family": "world", "mode": "pack", "share": 1}, {"family": "world", "mode": "select", "share": 1}, {"family": "fsm", "mode": "nego", "share": 1}, {"family": "gr", "mode": "llgr", "share": 1}, {"family": "wire", "mode": "malformed", "share": 1}, {"family": "rpki", "mode": "corrupt", "share": 1}, {"family": "mon", "mode": "", "share": 2}, {"family": "rpki", "mode": "", "share": 1}, {"family": "vpn", "mode": "", "share": 1}, {"family": "reset", "mode": "", "share": 1},
                              {"family": "mon", "mode": "", "share": 1, "race": True}, {"family": "rpki", "mode": "", "share": 1, "race": True}]
PROP_INFO["C20"]["rule"] = PROP_INFO["C20"]["rule"].replace("all simulation families (world, fsm, gr, wire;", "all simulation families (world, fsm, gr, wire, mon, rpki, vpn, reset;")

# a slice of the quick tier runs the race-detector build on the same seeded schedules
SUITES["C20"]["quick"] += [{"family": "world", "mode": "", "share": 2, "race": True}]
PROP_INFO["C20"]["budget"] = {"quick": 90, "thorough": 1800}

# ---- per-property component lists for the evidence files (what ran real code, what was a stub)
_REAL = ["pkg/server (BgpServer, FSM, sender/receiver loops, watchers, managers)", "internal/pkg/table", "pkg/packet/bgp", "pkg/config/oc", "pkg/apiutil",
         "eapache/channels", "Go sync/time/net semantics (scheduler, timers, select, map order under the seeded overlay)"]
_STUB = ["BGP neighbours (simPeer with independent wire decoder)", "TCP (in-memory simNet: latency, fragmentation, stall, reset, refuse, black hole)",
         "API clients (in-process calls, no gRPC transport)", "kernel socket options (fail harmlessly)"]
PROP_INFO["C19"]["real"] = _REAL + ["pkg/server bmp.go / mrt.go / rpki.go (BMP client, MRT writer, RTR client)", "pkg/packet/bmp, pkg/packet/mrt, pkg/packet/rtr (serialisers, RTR parser)", "the real file system for MRT dump files"]
PROP_INFO["C19"]["stub"] = _STUB + ["BMP stations (independent RFC 7854/9069 reader)", "MRT file reader (independent RFC 6396/8050 parser)", "RTR caches (independent RFC 6810 encoder, PDU corruption)"]
PROP_INFO["C19"]["assumptions"] = ["go1.26.8 runtime patched by build-time overlay (seeded scheduler, fake-timer tie-break, select order, map seeds); GOMAXPROCS=1",
                                   "sampling, not proof: a clean batch is evidence only",
                                   "decides the daemon-emitted-records clause and stream handling only; the pure for-all-byte-strings codec clauses, BFD, Route Mirroring and disk faults are not covered"]
PROP_INFO["C16"]["real"] = _REAL + ["pkg/server rpki.go (RTR client, ROA manager)", "internal/pkg/table roa.go", "pkg/packet/rtr"]
PROP_INFO["C16"]["stub"] = _STUB + ["RTR caches (independent RFC 6810 encoder)"]

# ---- restarting-speaker clause of C12 (world/restarting), zebra stream family (C19, C20)
RESTART_RULE = (" Mode world/restarting: the daemon starts as a restarting speaker (every neighbour GR-enabled, local-restarting, one deferral time); sessions come up, "
                "routes arrive, a drawn subset of peers sends End-of-RIB per GR family, one peer may come up late; then either the rest finishes, or nothing "
                "happens until the deferral timers fire, or only part of it; checks fall clearly before and after each deadline: while held a peer's view must be "
                "empty, after release it must equal the export of the Loc-RIB.")
SUITES["C12"]["quick"] += [{"family": "world", "mode": "restarting", "share": 1}]
SUITES["C12"]["thorough"] += [{"family": "world", "mode": "restarting", "share": 1}]
PROP_INFO["C12"]["rule"] = PROP_INFO["C12"]["rule"] + RESTART_RULE
ALL_FAMILIES += [("world", "restarting"), ("zebra", "")]
SUITES["C19"]["quick"] += [{"family": "zebra", "mode": "", "share": 1}]
SUITES["C19"]["thorough"] += [{"family": "zebra", "mode": "", "share": 1}]
SUITES["C20"]["quick"] += [{"family": "zebra", "mode": "", "share": 1}]
SUITES["C20"]["thorough"] += [{"family": "zebra", "mode": "", "share": 1}, {"family": "world", "mode": "restarting", "share": 1}]
X = {"level": "exploration", "rule": RESTART_RULE, "probes": [], "budget": {"quick": 40, "thorough": 300}}
PROP_INFO["X_RESTART"] = dict(X); SUITES["X_RESTART"] = {"quick": [{"family": "world", "mode": "restarting", "share": 1}], "thorough": [{"family": "world", "mode": "restarting", "share": 1}]}
PROP_INFO["X_ZEBRA"] = dict(X); SUITES["X_ZEBRA"] = {"quick": [{"family": "zebra", "mode": "", "share": 1}], "thorough": [{"family": "zebra", "mode": "", "share": 1}]}

# C02: a neighbour deleted while its routes are retained as stale (gr family) must leave nothing behind
SUITES["C02"]["quick"] += [{"family": "gr", "mode": "", "share": 1}]
SUITES["C02"]["thorough"] += [{"family": "gr", "mode": "", "share": 1}]

# ---- bfd family: BFD server/clients of the daemon over simulated datagram sockets (C19 BFD clause, C20, C07 administrative-reset clause)
ALL_FAMILIES += [("bfd", "")]
_B = {"family": "bfd", "mode": "", "share": 1}
SUITES["C19"]["quick"] += [dict(_B)]
SUITES["C19"]["thorough"] += [dict(_B)]
SUITES["C20"]["quick"] += [dict(_B)]
SUITES["C20"]["thorough"] += [dict(_B), dict(_B, race=True)]
SUITES["C07"]["quick"] += [dict(_B)]
SUITES["C07"]["thorough"] += [dict(_B)]
PROP_INFO["X_BFD"] = dict(X); SUITES["X_BFD"] = {"quick": [dict(_B)], "thorough": [dict(_B), dict(_B, race=True)]}
PROP_INFO["C19"]["real"] = PROP_INFO["C19"]["real"] + ["pkg/server bfd_server.go / bfd_peer.go, pkg/packet/bfd", "pkg/server zclient.go, pkg/zebra"]
PROP_INFO["C19"]["stub"] = PROP_INFO["C19"]["stub"] + ["remote BFD speakers (independent RFC 5880 codec and state machine) over simulated datagram sockets (loss, duplication, delay/reordering)", "zebra daemon (independent ZAPI framing)"]
PROP_INFO["C19"]["assumptions"] = [a.replace("BFD, Route Mirroring", "Route Mirroring") for a in PROP_INFO["C19"]["assumptions"]]

# ---- collide family: two simultaneous transport connections, RFC 4271 6.8 / RFC 6286 collision resolution (C07)
ALL_FAMILIES += [("collide", "")]
_CO = {"family": "collide", "mode": "", "share": 1}
SUITES["C07"]["quick"] += [dict(_CO)]
SUITES["C07"]["thorough"] += [dict(_CO)]
SUITES["C20"]["thorough"] += [dict(_CO)]
PROP_INFO["X_COLLIDE"] = dict(X); SUITES["X_COLLIDE"] = {"quick": [dict(_CO)], "thorough": [dict(_CO)]}

# development aid: only the race-detector slices of the families with watchers and stations
PROP_INFO["X_RACE"] = dict(X); SUITES["X_RACE"] = {"quick": [{"family": "fsm", "mode": "", "share": 1, "race": True}, {"family": "mon", "mode": "", "share": 1, "race": True}, {"family": "gr", "mode": "", "share": 1, "race": True}], "thorough": [{"family": "fsm", "mode": "", "share": 1, "race": True}, {"family": "mon", "mode": "", "share": 1, "race": True}, {"family": "gr", "mode": "", "share": 1, "race": True}, {"family": "rpki", "mode": "", "share": 1, "race": True}, {"family": "bfd", "mode": "", "share": 1, "race": True}, {"family": "collide", "mode": "", "share": 1, "race": True}, {"family": "zebra", "mode": "", "share": 1, "race": True}, {"family": "vpn", "mode": "", "share": 1, "race": True}]}

# the race-detector slice of the quick tier also covers the families with watchers and BMP stations (D49, KF6 were only seen by the thorough tier before)
SUITES["C20"]["quick"] += [{"family": "fsm", "mode": "", "share": 1, "race": True}, {"family": "mon", "mode": "", "share": 1, "race": True}]
PROP_INFO["C20"]["budget"] = {"quick": 120, "thorough": 1800}

# ---- zebra/nht: next-hop reachability reported by zebra (first step of the decision process, C03)
ALL_FAMILIES += [("zebra", "nht")]
_NH = {"family": "zebra", "mode": "nht", "share": 1}
SUITES["C03"]["quick"] += [dict(_NH)]
SUITES["C03"]["thorough"] += [dict(_NH)]
SUITES["C20"]["thorough"] += [dict(_NH)]
PROP_INFO["X_NHT"] = dict(X); SUITES["X_NHT"] = {"quick": [dict(_NH)], "thorough": [dict(_NH)]}

# C11's batches: the regular and ADD-PATH world modes too (slow neighbours make whole histories of a prefix reach the packer as one batch)
SUITES["C11"]["quick"] += [{"family": "world", "mode": "", "share": 1}, {"family": "world", "mode": "addpath", "share": 1}]
SUITES["C11"]["thorough"] += [{"family": "world", "mode": "", "share": 1}, {"family": "world", "mode": "addpath", "share": 1}]
# C20 quick also runs the collision family (its parked-connection leaks were only in C07's and the thorough suites)
SUITES["C20"]["quick"] += [dict(_CO)]

# C19 RTR stream clause: receive counters vs PDUs sent are compared in the plain rpki mode
SUITES["C19"]["quick"] += [{"family": "rpki", "mode": "", "share": 1}]
SUITES["C19"]["thorough"] += [{"family": "rpki", "mode": "", "share": 1}]

# C06's "a well-formed UPDATE is never penalised": the fuzz mode of the wire family has the session variety (2-octet
# neighbours with AS4_PATH, ADD-PATH, Extended Message) and checks every valid UPDATE it interleaves
for _t in ("quick", "thorough"):
    for _s in SUITES["C06"][_t]:
        _s["share"] = _s.get("share", 1) * 3
    SUITES["C06"][_t] += [{"family": "wire", "mode": "fuzz", "share": 1}]

# C08 also runs the collision family (the session's parameters come from the OPEN received on the surviving connection)
SUITES["C08"]["quick"] += [dict(_CO)]
SUITES["C08"]["thorough"] += [dict(_CO)]

# development aid: every world mode at once, all classes reported
PROP_INFO["X_WORLD"] = dict(X); SUITES["X_WORLD"] = {"quick": [{"family": "world", "mode": m, "share": 1} for m in ("", "nofault", "addpath", "select", "pack")], "thorough": [{"family": "world", "mode": m, "share": 1} for m in ("", "nofault", "addpath", "select")]}

# C08's "encoded as the session negotiated": UPDATEs to 2-octet-AS neighbours (AS_TRANS + AS4_PATH) are produced in
# the world family; its pack mode also splits one attribute group over several UPDATEs
SUITES["C08"]["quick"] += [{"family": "world", "mode": "pack", "share": 1}]
SUITES["C08"]["thorough"] += [{"family": "world", "mode": "pack", "share": 1}, {"family": "world", "mode": "", "share": 1}]
PROP_INFO["X_MON"] = dict(X); SUITES["X_MON"] = {"quick": [{"family": "mon", "mode": "", "share": 1}], "thorough": [{"family": "mon", "mode": "", "share": 1}]}
