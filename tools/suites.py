"""Which simulated suites decide which property, and how evidence is described."""

WORLD_RULE = ("seeded generation of a configuration (3-6 neighbours of kinds eBGP/iBGP/RR-client/RS-client, ADD-PATH receive/send-max, "
              "2-octet-AS and extended-message neighbours, timers) and a phased script of concurrent announce/replace/withdraw over a shared "
              "prefix pool, session flaps (reset/close/notification), peer delete/add, API add/delete, soft resets and route refresh; one "
              "scheduler seed + yield density + select shuffle per run. A run is NON-TRIVIAL if it performed at least one quiescent check on a "
              "non-empty Loc-RIB and fired at least one probe of the property; DISTINCT by (schedule signature = hash of every scheduling "
              "decision, event-log hash).")

PROP_INFO = {
    "C01": {"level": "exploration", "rule": WORLD_RULE, "probes": ["view_route_checked"], "budget": {"quick": 60, "thorough": 1200}},
    "C02": {"level": "exploration", "rule": WORLD_RULE, "probes": ["announce"], "budget": {"quick": 60, "thorough": 1200}},
    "C09": {"level": "exploration", "rule": WORLD_RULE, "probes": ["view_route_checked"], "budget": {"quick": 60, "thorough": 1200}},
}

SUITES = {
    "C01": {"quick": [{"family": "world", "mode": "", "share": 3}, {"family": "world", "mode": "nofault", "share": 1}],
            "thorough": [{"family": "world", "mode": "", "share": 3}, {"family": "world", "mode": "nofault", "share": 1}]},
    "C02": {"quick": [{"family": "world", "mode": "", "share": 3}, {"family": "world", "mode": "nofault", "share": 1}],
            "thorough": [{"family": "world", "mode": "", "share": 3}, {"family": "world", "mode": "nofault", "share": 1}]},
    "C09": {"quick": [{"family": "world", "mode": "", "share": 3}, {"family": "world", "mode": "nofault", "share": 1}],
            "thorough": [{"family": "world", "mode": "", "share": 3}, {"family": "world", "mode": "nofault", "share": 1}]},
}

ALL_FAMILIES = [("world", ""), ("world", "nofault")]
PROP_INFO["C20"] = {"level": "exploration", "rule": WORLD_RULE, "probes": [], "budget": {"quick": 60, "thorough": 1200}}
SUITES["C20"] = {"quick": [{"family": "world", "mode": "", "share": 1}], "thorough": [{"family": "world", "mode": "", "share": 1}]}
SUITES["C01"]["quick"].append({"family": "world", "mode": "addpath", "share": 2})
SUITES["C01"]["thorough"].append({"family": "world", "mode": "addpath", "share": 2})
ALL_FAMILIES.append(("world", "addpath"))

PROP_INFO["X_ADDPATH"] = {"level": "exploration", "rule": WORLD_RULE, "probes": [], "budget": {"quick": 60, "thorough": 600}}
SUITES["X_ADDPATH"] = {"quick": [{"family": "world", "mode": "addpath", "share": 1}], "thorough": [{"family": "world", "mode": "addpath", "share": 1}]}

PROP_INFO["C03"] = {"level": "exploration", "rule": WORLD_RULE + " For C03 the candidate sets are those the Loc-RIB holds at each quiescent point; arrival order and age come from the simulated sessions.", "probes": ["best_checked"], "budget": {"quick": 60, "thorough": 1200}}
SUITES["C03"] = {"quick": [{"family": "world", "mode": "select", "share": 3}, {"family": "world", "mode": "", "share": 1}],
                 "thorough": [{"family": "world", "mode": "select", "share": 3}, {"family": "world", "mode": "", "share": 1}]}
ALL_FAMILIES.append(("world", "select"))
