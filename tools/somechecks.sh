#!/bin/bash
# somechecks.sh <seed> <tier> <property>... : run the named checks of a tier with VERIF_SEED=<seed>
cd "$(dirname "$0")/.."
SEED=$1; TIER=$2; shift 2
mkdir -p build/allquick
for p in "$@"; do
  VERIF_SEED=$SEED ./check $p --tier $TIER --seed $SEED > build/allquick/$p-$SEED-$TIER.log 2>&1; rc=$?
  echo "$p seed=$SEED rc=$rc $(tail -n 1 build/allquick/$p-$SEED-$TIER.log | cut -c1-160)"
done
